//! One integer decides everything: every run's choices come from a ChaCha8 stream keyed by
//! (VERIF_SEED, world name, scenario, run index). Nothing else is consulted.

use rand::{RngCore, SeedableRng};
use rand_chacha::ChaCha8Rng;

pub const DEFAULT_SEED: u64 = 0x5EED_E1E3_2026_0923;

#[inline]
pub fn splitmix(state: &mut u64) -> u64 {
    *state = state.wrapping_add(0x9E37_79B9_7F4A_7C15);
    let mut z = *state;
    z = (z ^ (z >> 30)).wrapping_mul(0xBF58_476D_1CE4_E5B9);
    z = (z ^ (z >> 27)).wrapping_mul(0x94D0_49BB_1331_11EB);
    z ^ (z >> 31)
}

pub fn fnv(s: &[u8]) -> u64 {
    let mut h: u64 = 0xcbf2_9ce4_8422_2325;
    for b in s {
        h ^= *b as u64;
        h = h.wrapping_mul(0x0000_0100_0000_01b3);
    }
    h
}

pub struct Prng(ChaCha8Rng);

impl Prng {
    pub fn for_run(seed: u64, world: &str, scenario: &str, run: u64) -> Prng {
        let mut st = seed;
        let mut key = [0u8; 32];
        let a = splitmix(&mut st) ^ fnv(world.as_bytes());
        let b = splitmix(&mut st) ^ fnv(scenario.as_bytes()).rotate_left(17);
        let c = splitmix(&mut st) ^ run.wrapping_mul(0xD6E8_FEB8_6659_FD93);
        let d = splitmix(&mut st);
        key[0..8].copy_from_slice(&a.to_le_bytes());
        key[8..16].copy_from_slice(&b.to_le_bytes());
        key[16..24].copy_from_slice(&c.to_le_bytes());
        key[24..32].copy_from_slice(&d.to_le_bytes());
        Prng(ChaCha8Rng::from_seed(key))
    }
    pub fn from_u64(seed: u64) -> Prng {
        let mut st = seed;
        let mut key = [0u8; 32];
        for i in 0..4 {
            key[i * 8..i * 8 + 8].copy_from_slice(&splitmix(&mut st).to_le_bytes());
        }
        Prng(ChaCha8Rng::from_seed(key))
    }
    #[inline]
    pub fn u64(&mut self) -> u64 {
        self.0.next_u64()
    }
    #[inline]
    pub fn u32(&mut self) -> u32 {
        self.0.next_u32()
    }
    #[inline]
    pub fn u8(&mut self) -> u8 {
        self.0.next_u32() as u8
    }
    /// uniform in 0..n (n>0)
    #[inline]
    pub fn below(&mut self, n: u64) -> u64 {
        debug_assert!(n > 0);
        // multiply-shift; bias negligible for the n used here
        ((self.0.next_u64() as u128 * n as u128) >> 64) as u64
    }
    #[inline]
    pub fn usize_below(&mut self, n: usize) -> usize {
        self.below(n as u64) as usize
    }
    /// uniform in lo..=hi
    #[inline]
    pub fn range(&mut self, lo: u64, hi: u64) -> u64 {
        lo + self.below(hi - lo + 1)
    }
    #[inline]
    pub fn urange(&mut self, lo: usize, hi: usize) -> usize {
        self.range(lo as u64, hi as u64) as usize
    }
    /// true with probability num/den
    #[inline]
    pub fn chance(&mut self, num: u64, den: u64) -> bool {
        self.below(den) < num
    }
    #[inline]
    pub fn coin(&mut self) -> bool {
        self.0.next_u32() & 1 == 1
    }
    pub fn fill(&mut self, buf: &mut [u8]) {
        self.0.fill_bytes(buf)
    }
    pub fn bytes(&mut self, n: usize) -> Vec<u8> {
        let mut v = vec![0u8; n];
        self.0.fill_bytes(&mut v);
        v
    }
    pub fn arr32(&mut self) -> [u8; 32] {
        let mut v = [0u8; 32];
        self.0.fill_bytes(&mut v);
        v
    }
    pub fn pick<'a, T>(&mut self, xs: &'a [T]) -> &'a T {
        &xs[self.usize_below(xs.len())]
    }
    pub fn shuffle<T>(&mut self, xs: &mut [T]) {
        for i in (1..xs.len()).rev() {
            let j = self.usize_below(i + 1);
            xs.swap(i, j);
        }
    }
    /// A length biased towards small values and towards varint / push boundaries.
    pub fn len_biased(&mut self, max: usize) -> usize {
        let r = self.below(100);
        let v = if r < 30 {
            self.below(4) as usize
        } else if r < 70 {
            self.below(40) as usize
        } else if r < 85 {
            *self.pick(&[75usize, 76, 77, 0xfc, 0xfd, 0xfe, 255, 256, 257])
        } else if r < 87 && max > 0x10000 {
            // the three-byte / five-byte length-prefix boundary, where the caller allows objects that large
            *self.pick(&[0xffffusize, 0x10000, 0x10001])
        } else if r < 89 && max >= 512 {
            // sizes around powers of two (buffer and chunk sizes live there)
            let k = 8 + self.below(10) as u32; // 256 .. 131072
            let base = 1usize << k;
            let base = if base > max { 1usize << (usize::BITS - 1 - max.leading_zeros()) } else { base };
            (base + self.below(3) as usize).saturating_sub(1)
        } else if r < 95 {
            self.below(600) as usize
        } else {
            self.below(max as u64 + 1) as usize
        };
        v.min(max)
    }
}
