//! The repository's own vectors as workload (DESIGN §12): hex / base64 literals of /repo's tests, examples and
//! tests/data, extracted by tools/mkcorpus.py into corpus/blobs.txt and classified ONCE with the unchanged
//! library by `elements-sim corpus-classify` into corpus/index.json (both committed). The simulator embeds both
//! files; the classification is data, so a changed decoder that now refuses (or re-encodes differently) a
//! real-network transaction is seen, not silently dropped from the workload.

use elements::encode::{deserialize, serialize};
use elements::pset::PartiallySignedTransaction as Pset;
use elements::{Block, BlockHeader, Transaction, TxOut};
use serde::{Deserialize, Serialize};
use std::sync::OnceLock;

static BLOBS: &str = include_str!("../corpus/blobs.txt");
static INDEX: &str = include_str!("../corpus/index.json");

#[derive(Clone, Copy, Debug, Serialize, Deserialize, PartialEq, Eq, PartialOrd, Ord)]
pub enum Kind {
    Tx,
    Block,
    Header,
    Pset,
    TxOut,
}

#[derive(Clone, Debug, Serialize, Deserialize)]
pub struct Verifying {
    /// consensus encoding of the transaction (a corpus blob, or extracted from a corpus PSET)
    pub tx: String,
    /// consensus encodings of the spent outputs (witness-free)
    pub spent: Vec<String>,
    pub origin: String,
}

#[derive(Clone, Debug, Default, Serialize, Deserialize)]
pub struct Index {
    /// (kind, blob number) for every blob the unchanged library decodes as that kind AND re-encodes byte for byte
    pub entries: Vec<(Kind, usize)>,
    pub verifying: Vec<Verifying>,
}

pub struct Corpus {
    pub blobs: Vec<(String, Vec<u8>)>,
    pub index: Index,
    pub verifying: Vec<(Vec<u8>, Vec<Vec<u8>>)>,
}

pub fn unhex(s: &str) -> Vec<u8> {
    let b = s.as_bytes();
    (0..b.len() / 2)
        .map(|i| {
            let d = |c: u8| match c {
                b'0'..=b'9' => c - b'0',
                b'a'..=b'f' => c - b'a' + 10,
                b'A'..=b'F' => c - b'A' + 10,
                _ => 0,
            };
            d(b[2 * i]) << 4 | d(b[2 * i + 1])
        })
        .collect()
}

pub fn hex(b: &[u8]) -> String {
    let mut s = String::with_capacity(b.len() * 2);
    for x in b {
        s.push_str(&format!("{:02x}", x));
    }
    s
}

fn load_blobs() -> Vec<(String, Vec<u8>)> {
    BLOBS.lines().filter_map(|l| l.split_once(' ')).map(|(s, h)| (s.to_string(), unhex(h.trim()))).collect()
}

pub fn get() -> &'static Corpus {
    static C: OnceLock<Corpus> = OnceLock::new();
    C.get_or_init(|| {
        let blobs = load_blobs();
        let index: Index = serde_json::from_str(INDEX).unwrap_or_default();
        let verifying = index.verifying.iter().map(|v| (unhex(&v.tx), v.spent.iter().map(|s| unhex(s)).collect())).collect();
        Corpus { blobs, index, verifying }
    })
}

impl Corpus {
    pub fn of_kind(&self, k: Kind) -> Vec<usize> {
        self.index.entries.iter().filter(|(kk, _)| *kk == k).map(|(_, i)| *i).collect()
    }
    pub fn bytes(&self, i: usize) -> &[u8] {
        self.blobs.get(i).map(|b| b.1.as_slice()).unwrap_or(&[])
    }
    pub fn source(&self, i: usize) -> &str {
        self.blobs.get(i).map(|b| b.0.as_str()).unwrap_or("?")
    }
}

/// n-th corpus blob of a kind (n is reduced modulo the number of such blobs); None if the corpus has none
pub fn nth(k: Kind, n: u32) -> Option<usize> {
    static BY: OnceLock<Vec<(Kind, Vec<usize>)>> = OnceLock::new();
    let by = BY.get_or_init(|| [Kind::Tx, Kind::Block, Kind::Header, Kind::Pset, Kind::TxOut].iter().map(|k| (*k, get().of_kind(*k))).collect());
    let v = &by.iter().find(|(kk, _)| *kk == k)?.1;
    if v.is_empty() {
        None
    } else {
        Some(v[n as usize % v.len()])
    }
}

pub fn tx(n: u32) -> Option<Result<Transaction, elements::encode::Error>> {
    nth(Kind::Tx, n).map(|i| deserialize::<Transaction>(get().bytes(i)))
}
pub fn pset(n: u32) -> Option<Result<Pset, elements::encode::Error>> {
    nth(Kind::Pset, n).map(|i| deserialize::<Pset>(get().bytes(i)))
}

/// `elements-sim corpus-classify`: run with the UNCHANGED library; prints index.json
pub fn classify() -> String {
    let blobs = load_blobs();
    let secp = crate::gen::secp();
    let mut idx = Index::default();
    let mut txouts: Vec<(usize, TxOut)> = Vec::new();
    let mut txs: Vec<(String, Transaction)> = Vec::new();
    let mut noncanon = Vec::new();
    for (i, (src, b)) in blobs.iter().enumerate() {
        macro_rules! try_kind {
            ($t:ty, $k:expr) => {
                if let Ok(v) = deserialize::<$t>(b) {
                    if serialize(&v) == *b {
                        idx.entries.push(($k, i));
                        true
                    } else {
                        noncanon.push(format!("{} #{} as {:?}", src, i, $k));
                        false
                    }
                } else {
                    false
                }
            };
        }
        if try_kind!(Transaction, Kind::Tx) {
            txs.push((format!("{}#{}", src, i), deserialize::<Transaction>(b).unwrap()));
        }
        try_kind!(Block, Kind::Block);
        try_kind!(BlockHeader, Kind::Header);
        // PSETs: C07 demands the fixpoint of the re-encoding, not byte equality with the input, so every accepted
        // blob is workload
        if b.len() > 5 && deserialize::<Pset>(b).is_ok() {
            idx.entries.push((Kind::Pset, i));
            let ps = deserialize::<Pset>(b).unwrap();
            if serialize(&ps) != *b {
                eprintln!("accepted PSET that is not in canonical form (fine for C07): {} #{}", src, i);
            }
            if let Ok(t) = ps.extract_tx() {
                let spent: Option<Vec<TxOut>> = ps.inputs().iter().map(|i| i.witness_utxo.clone()).collect();
                if let Some(spent) = spent {
                    if !spent.is_empty() && t.verify_tx_amt_proofs(secp, &spent).is_ok() {
                        idx.verifying.push(Verifying { tx: hex(&serialize(&t)), spent: spent.iter().map(|o| hex(&serialize(o))).collect(), origin: format!("{}#{} (extracted PSET + its witness UTXOs)", src, i) });
                    }
                }
                txs.push((format!("{}#{}(extracted)", src, i), t));
            }
        }
        if b.len() >= 9 + 1 + 1 + 1 && b.len() < 200 && try_kind!(TxOut, Kind::TxOut) {
            txouts.push((i, deserialize::<TxOut>(b).unwrap()));
        }
    }
    // spent outputs for the stand-alone transactions: search among the corpus' TxOuts, and among TxOuts put together
    // from the (asset, value) commitment literals of the same source file
    let mut cands: Vec<(String, TxOut)> = txouts.iter().map(|(i, o)| (blobs[*i].0.clone(), o.clone())).collect();
    for (i, (src, a)) in blobs.iter().enumerate() {
        if a.len() != 33 {
            continue;
        }
        let Ok(asset) = deserialize::<elements::confidential::Asset>(a) else { continue };
        for (j, (src2, v)) in blobs.iter().enumerate() {
            if src2 != src || (v.len() != 33 && v.len() != 9) || j == i {
                continue;
            }
            let Ok(value) = deserialize::<elements::confidential::Value>(v) else { continue };
            cands.push((src.clone(), TxOut { asset, value, ..Default::default() }));
        }
    }
    for (name, t) in &txs {
        if idx.verifying.iter().any(|v| v.tx == hex(&serialize(t))) || t.input.is_empty() || t.input.len() > 2 || t.is_coinbase() {
            continue;
        }
        let n = t.input.len();
        let mut found = None;
        if n == 1 {
            for (_, o) in &cands {
                if t.verify_tx_amt_proofs(secp, std::slice::from_ref(o)).is_ok() {
                    found = Some(vec![o.clone()]);
                    break;
                }
            }
        } else {
            let file = name.split('#').next().unwrap_or("");
            let local: Vec<&TxOut> = cands.iter().filter(|(s, _)| s == file || s.contains("examples")).map(|(_, o)| o).collect();
            'o: for a in &local {
                for b in &local {
                    let sp = vec![(*a).clone(), (*b).clone()];
                    if t.verify_tx_amt_proofs(secp, &sp).is_ok() {
                        found = Some(sp);
                        break 'o;
                    }
                }
            }
        }
        if let Some(sp) = found {
            idx.verifying.push(Verifying { tx: hex(&serialize(t)), spent: sp.iter().map(|o| hex(&serialize(o))).collect(), origin: name.clone() });
        }
    }
    for n in &noncanon {
        eprintln!("NON-CANONICAL ACCEPTED: {}", n);
    }
    let mut by = std::collections::BTreeMap::new();
    for (k, _) in &idx.entries {
        *by.entry(format!("{:?}", k)).or_insert(0) += 1;
    }
    eprintln!("{} blobs; kinds {:?}; {} verifying (tx, spent outputs) vectors", blobs.len(), by, idx.verifying.len());
    serde_json::to_string(&idx).unwrap()
}
