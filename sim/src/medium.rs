//! The medium between a producer and a consumer: owns the bytes in flight and applies byte-level
//! faults. Every fault is an explicit `Edit` (splice), so a replay needs no PRNG.
//! The medium is segment-aware for transactions (field boundaries computed from the in-memory value)
//! and for PSET key-value streams, so faults can be aimed at length prefixes and tag bytes.

use crate::prng::Prng;
use elements::encode::VarInt;
use elements::{confidential, Transaction, TxIn, TxOut};
use serde::{Deserialize, Serialize};

#[derive(Clone, Debug, Serialize, Deserialize, PartialEq, Eq)]
pub struct Edit {
    /// fault kind label ("bitflip", "trunc", "byz.nonminimal_varint", ...)
    pub label: String,
    pub pos: usize,
    pub remove: usize,
    pub insert: Vec<u8>,
}

/// one delivery = the reference bytes with these edits applied in order
pub type Delivery = Vec<Edit>;

pub fn apply(reference: &[u8], edits: &[Edit]) -> Vec<u8> {
    let mut b = reference.to_vec();
    for e in edits {
        let pos = e.pos.min(b.len());
        let end = (pos + e.remove).min(b.len());
        b.splice(pos..end, e.insert.iter().copied());
    }
    b
}

#[derive(Clone, Copy, Debug, PartialEq, Eq)]
pub enum SegKind {
    Varint(u64),
    Tag,
    Fixed,
    Blob,
    ProofHead,
}

#[derive(Clone, Copy, Debug)]
pub struct Seg {
    pub pos: usize,
    pub len: usize,
    pub kind: SegKind,
}

pub fn varint_len(v: u64) -> usize {
    VarInt(v).size()
}

pub fn varint_bytes(v: u64) -> Vec<u8> {
    match v {
        0..=0xFC => vec![v as u8],
        0xFD..=0xFFFF => {
            let mut b = vec![0xFD];
            b.extend((v as u16).to_le_bytes());
            b
        }
        0x10000..=0xFFFF_FFFF => {
            let mut b = vec![0xFE];
            b.extend((v as u32).to_le_bytes());
            b
        }
        _ => {
            let mut b = vec![0xFF];
            b.extend(v.to_le_bytes());
            b
        }
    }
}

/// a non-minimal encoding of `v` (wider than necessary); None if v already needs 9 bytes
pub fn nonminimal_varint(v: u64, p: &mut Prng) -> Option<Vec<u8>> {
    let mut options: Vec<Vec<u8>> = Vec::new();
    if v < 0xFD {
        let mut b = vec![0xFD];
        b.extend((v as u16).to_le_bytes());
        options.push(b);
    }
    if v < 0x10000 {
        let mut b = vec![0xFE];
        b.extend((v as u32).to_le_bytes());
        options.push(b);
    }
    if v < 0x1_0000_0000 {
        let mut b = vec![0xFF];
        b.extend(v.to_le_bytes());
        options.push(b);
    }
    if options.is_empty() {
        None
    } else {
        Some(options[p.usize_below(options.len())].clone())
    }
}

struct Mapper {
    pos: usize,
    segs: Vec<Seg>,
}
impl Mapper {
    fn add(&mut self, len: usize, kind: SegKind) {
        if len > 0 {
            self.segs.push(Seg { pos: self.pos, len, kind });
        }
        self.pos += len;
    }
    fn varint(&mut self, v: u64) {
        self.add(varint_len(v), SegKind::Varint(v));
    }
    fn blob(&mut self, len: usize) {
        self.varint(len as u64);
        self.add(len, SegKind::Blob);
    }
    fn proof(&mut self, len: usize) {
        self.varint(len as u64);
        let head = len.min(12);
        self.add(head, SegKind::ProofHead);
        self.add(len - head, SegKind::Blob);
    }
    fn conf(&mut self, null: bool, explicit_len: usize, is_explicit: bool) {
        self.add(1, SegKind::Tag);
        if !null {
            self.add(if is_explicit { explicit_len } else { 32 }, SegKind::Fixed);
        }
    }
    fn value(&mut self, v: &confidential::Value) {
        self.conf(v.is_null(), 8, v.is_explicit());
    }
    fn asset(&mut self, v: &confidential::Asset) {
        self.conf(v.is_null(), 32, v.is_explicit());
    }
    fn nonce(&mut self, v: &confidential::Nonce) {
        self.conf(v.is_null(), 32, v.is_explicit());
    }
    fn txin(&mut self, i: &TxIn) {
        self.add(32, SegKind::Fixed);
        self.add(4, SegKind::Tag); // vout with flag bits
        self.blob(i.script_sig.len());
        self.add(4, SegKind::Fixed);
        if i.has_issuance() {
            self.add(32, SegKind::Fixed);
            self.add(32, SegKind::Fixed);
            self.value(&i.asset_issuance.amount);
            self.value(&i.asset_issuance.inflation_keys);
        }
    }
    fn txout(&mut self, o: &TxOut) {
        self.asset(&o.asset);
        self.value(&o.value);
        self.nonce(&o.nonce);
        self.blob(o.script_pubkey.len());
    }
    fn stack(&mut self, s: &[Vec<u8>]) {
        self.varint(s.len() as u64);
        for it in s {
            self.blob(it.len());
        }
    }
    fn tx(&mut self, t: &Transaction) {
        self.add(4, SegKind::Fixed);
        self.add(1, SegKind::Tag);
        self.varint(t.input.len() as u64);
        for i in &t.input {
            self.txin(i);
        }
        self.varint(t.output.len() as u64);
        for o in &t.output {
            self.txout(o);
        }
        self.add(4, SegKind::Fixed);
        if t.has_witness() {
            for i in &t.input {
                self.proof(i.witness.amount_rangeproof.as_ref().map(|p| elements::secp256k1_zkp::RangeProof::serialize(p).len()).unwrap_or(0));
                self.proof(i.witness.inflation_keys_rangeproof.as_ref().map(|p| elements::secp256k1_zkp::RangeProof::serialize(p).len()).unwrap_or(0));
                self.stack(&i.witness.script_witness);
                self.stack(&i.witness.pegin_witness);
            }
            for o in &t.output {
                self.proof(o.witness.surjection_proof.as_ref().map(|p| elements::secp256k1_zkp::SurjectionProof::serialize(p).len()).unwrap_or(0));
                self.proof(o.witness.rangeproof.as_ref().map(|p| elements::secp256k1_zkp::RangeProof::serialize(p).len()).unwrap_or(0));
            }
        }
    }
}

/// field boundaries of a transaction's consensus encoding; None if they do not add up to `total_len`
pub fn tx_segments(t: &Transaction, total_len: usize) -> Option<Vec<Seg>> {
    let mut m = Mapper { pos: 0, segs: Vec::new() };
    m.tx(t);
    if m.pos == total_len {
        Some(m.segs)
    } else {
        None
    }
}

/// Field boundaries of a PSET byte stream, read off the bytes themselves (magic, then maps of
/// <keylen><key><vallen><val> terminated by 0x00). Best effort: stops at the first inconsistency.
pub fn pset_segments(b: &[u8]) -> Vec<Seg> {
    let mut segs = Vec::new();
    let mut pos = 0usize;
    if b.len() < 5 {
        return segs;
    }
    segs.push(Seg { pos: 0, len: 5, kind: SegKind::Fixed });
    pos += 5;
    fn read_varint(b: &[u8], pos: usize) -> Option<(u64, usize)> {
        let f = *b.get(pos)?;
        match f {
            0xFD => Some((u16::from_le_bytes(b.get(pos + 1..pos + 3)?.try_into().ok()?) as u64, 3)),
            0xFE => Some((u32::from_le_bytes(b.get(pos + 1..pos + 5)?.try_into().ok()?) as u64, 5)),
            0xFF => Some((u64::from_le_bytes(b.get(pos + 1..pos + 9)?.try_into().ok()?), 9)),
            n => Some((n as u64, 1)),
        }
    }
    while pos < b.len() {
        let Some((klen, w)) = read_varint(b, pos) else { break };
        segs.push(Seg { pos, len: w, kind: SegKind::Varint(klen) });
        pos += w;
        if klen == 0 {
            continue; // map separator
        }
        if pos + klen as usize > b.len() {
            break;
        }
        segs.push(Seg { pos, len: 1, kind: SegKind::Tag }); // key type
        if klen > 1 {
            segs.push(Seg { pos: pos + 1, len: klen as usize - 1, kind: SegKind::Blob });
        }
        pos += klen as usize;
        let Some((vlen, w)) = read_varint(b, pos) else { break };
        segs.push(Seg { pos, len: w, kind: SegKind::Varint(vlen) });
        pos += w;
        if pos + vlen as usize > b.len() {
            break;
        }
        if vlen > 0 {
            segs.push(Seg { pos, len: (vlen as usize).min(4), kind: SegKind::ProofHead });
            if vlen > 4 {
                segs.push(Seg { pos: pos + 4, len: vlen as usize - 4, kind: SegKind::Blob });
            }
        }
        pos += vlen as usize;
    }
    segs
}

/// Draw one delivery (a short list of edits) over `reference`, aimed with `segs` when available.
pub fn draw_delivery(p: &mut Prng, reference: &[u8], segs: Option<&[Seg]>) -> Delivery {
    let n = reference.len();
    let mut out = Vec::new();
    let structural: Vec<&Seg> = segs.map(|s| s.iter().filter(|x| !matches!(x.kind, SegKind::Blob)).collect()).unwrap_or_default();
    let varints: Vec<&Seg> = segs.map(|s| s.iter().filter(|x| matches!(x.kind, SegKind::Varint(_))).collect()).unwrap_or_default();
    let blobs: Vec<&Seg> = segs.map(|s| s.iter().filter(|x| matches!(x.kind, SegKind::Blob | SegKind::ProofHead | SegKind::Fixed)).collect()).unwrap_or_default();
    let pick_pos = |p: &mut Prng| -> usize {
        if n == 0 {
            return 0;
        }
        if !structural.is_empty() && p.chance(2, 3) {
            let s = p.pick(&structural);
            s.pos + p.usize_below(s.len)
        } else {
            p.usize_below(n)
        }
    };
    let n_edits = if p.chance(3, 4) { 1 } else { 2 };
    for _ in 0..n_edits {
        let kind = p.below(100);
        if n == 0 {
            let k = p.urange(1, 4);
            out.push(Edit { label: "extend".into(), pos: 0, remove: 0, insert: p.bytes(k) });
            continue;
        }
        if kind < 30 {
            let pos = pick_pos(p);
            let bit = p.below(8) as u8;
            out.push(Edit { label: "bitflip".into(), pos, remove: 1, insert: vec![reference[pos] ^ (1 << bit)] });
        } else if kind < 42 {
            let pos = pick_pos(p);
            let mut v = p.u8();
            if v == reference[pos] {
                v = v.wrapping_add(1);
            }
            // bias toward values that matter for prefixes and lengths
            if p.chance(1, 2) {
                v = *p.pick(&[0u8, 1, 2, 3, 8, 9, 0x0a, 0x0b, 0xfc, 0xfd, 0xfe, 0xff, 0x7f, 0x80]);
                if v == reference[pos] {
                    v ^= 0x40;
                }
            }
            out.push(Edit { label: "setbyte".into(), pos, remove: 1, insert: vec![v] });
        } else if kind < 54 {
            // truncation: the peer closed or crashed mid-message
            let at = if p.chance(1, 2) { pick_pos(p) } else { n - 1 - p.usize_below(n.min(8)) };
            out.push(Edit { label: "trunc".into(), pos: at, remove: n, insert: vec![] });
        } else if kind < 62 {
            let k = p.urange(1, 16);
            let ins = if p.coin() { vec![0u8; k] } else { p.bytes(k) };
            out.push(Edit { label: "extend".into(), pos: n, remove: 0, insert: ins });
        } else if kind < 70 && !blobs.is_empty() {
            // duplicate a segment in place
            let s = p.pick(&blobs);
            let len = s.len.min(64);
            out.push(Edit { label: "dup_segment".into(), pos: s.pos + len, remove: 0, insert: reference[s.pos..s.pos + len].to_vec() });
        } else if kind < 78 && !blobs.is_empty() {
            let s = p.pick(&blobs);
            let len = p.urange(1, s.len.min(64));
            out.push(Edit { label: "drop_segment".into(), pos: s.pos, remove: len, insert: vec![] });
        } else if kind < 84 && blobs.len() >= 2 {
            // swap two equal-length windows
            let a = p.pick(&blobs);
            let b = p.pick(&blobs);
            let len = a.len.min(b.len).min(32);
            if a.pos != b.pos && len > 0 {
                out.push(Edit { label: "swap_segment".into(), pos: a.pos, remove: len, insert: reference[b.pos..b.pos + len].to_vec() });
                out.push(Edit { label: "swap_segment".into(), pos: b.pos, remove: len, insert: reference[a.pos..a.pos + len].to_vec() });
            }
        } else if kind < 94 && !varints.is_empty() {
            // byzantine re-encoder: same value, wider varint
            let s = p.pick(&varints);
            if let SegKind::Varint(v) = s.kind {
                if let Some(enc) = nonminimal_varint(v, p) {
                    out.push(Edit { label: "byz.nonminimal_varint".into(), pos: s.pos, remove: s.len, insert: enc });
                }
            }
        } else if !varints.is_empty() {
            // length prefix changed by a small amount or to a huge value (allocation guard)
            let s = p.pick(&varints);
            if let SegKind::Varint(v) = s.kind {
                let nv = match p.below(6) {
                    0 => v.wrapping_add(1),
                    1 => v.saturating_sub(1),
                    2 => 0xFFFF_FFFF,
                    3 => 0xFFFF_FFFF_FFFF_FFFF,
                    4 => 4_000_001,
                    _ => v.wrapping_mul(2).wrapping_add(7),
                };
                if nv != v {
                    out.push(Edit { label: "length_prefix".into(), pos: s.pos, remove: s.len, insert: varint_bytes(nv) });
                }
            }
        } else {
            let pos = pick_pos(p);
            out.push(Edit { label: "bitflip".into(), pos, remove: 1, insert: vec![reference[pos] ^ 0x01] });
        }
    }
    // keep edit positions independent: apply from the highest position down
    out.sort_by(|a, b| b.pos.cmp(&a.pos));
    out
}
