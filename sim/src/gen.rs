//! Workload generators. Every object is a pure function of a small serialisable spec (seed + shape),
//! so replay files carry specs, never library-encoded bytes.

use crate::prng::Prng;
use elements::confidential::{Asset, AssetBlindingFactor, Nonce, Value, ValueBlindingFactor};
use elements::hashes::Hash;
use elements::secp256k1_zkp::{self as zkp, All, Generator, PedersenCommitment, PublicKey, RangeProof, Secp256k1, SecretKey, SurjectionProof, Tag, Tweak};
use elements::{AssetId, AssetIssuance, LockTime, OutPoint, Script, Sequence, Transaction, TxIn, TxInWitness, TxOut, TxOutWitness, Txid};
use serde::{Deserialize, Serialize};
use std::sync::OnceLock;

pub fn secp() -> &'static Secp256k1<All> {
    static S: OnceLock<Secp256k1<All>> = OnceLock::new();
    S.get_or_init(Secp256k1::new)
}

/// Real curve objects and real proofs, built once per process from a fixed constant (not VERIF_SEED:
/// the pool is part of the harness, the choice among its entries is part of the run).
pub struct Pool {
    pub gens: Vec<Generator>,
    pub comms: Vec<PedersenCommitment>,
    pub pks: Vec<PublicKey>,
    pub tweaks: Vec<Tweak>,
    pub rangeproofs: Vec<RangeProof>,
    pub surjproofs: Vec<SurjectionProof>,
}

pub fn secret_key(p: &mut Prng) -> SecretKey {
    loop {
        if let Ok(sk) = SecretKey::from_slice(&p.arr32()) {
            return sk;
        }
    }
}

pub fn tweak(p: &mut Prng) -> Tweak {
    loop {
        let b = p.arr32();
        if b == [0u8; 32] {
            continue;
        }
        if let Ok(t) = Tweak::from_inner(b) {
            return t;
        }
    }
}

pub fn pool() -> &'static Pool {
    static P: OnceLock<Pool> = OnceLock::new();
    P.get_or_init(|| {
        let secp = secp();
        let mut p = Prng::from_u64(0x900D_F00D_0001);
        let mut gens = Vec::new();
        let mut comms = Vec::new();
        let mut pks = Vec::new();
        let mut tweaks = Vec::new();
        let mut rangeproofs = Vec::new();
        let mut surjproofs = Vec::new();
        for i in 0..24 {
            let tag = Tag::from(p.arr32());
            let abf = tweak(&mut p);
            let g = Generator::new_blinded(secp, tag, abf);
            let vbf = tweak(&mut p);
            let value = 1 + p.below(1 << 40);
            let c = PedersenCommitment::new(secp, value, vbf, g);
            gens.push(g);
            comms.push(c);
            pks.push(PublicKey::from_secret_key(secp, &secret_key(&mut p)));
            tweaks.push(tweak(&mut p));
            if i < 6 {
                // rangeproofs of different sizes: vary min bits and message length
                let min_bits = [0u8, 8, 32, 52, 36, 16][i];
                let msg = p.bytes([0usize, 64, 64, 64, 10, 33][i]);
                let extra = p.bytes(i * 7);
                let sk = secret_key(&mut p);
                let rp = RangeProof::new(secp, if i == 0 { value } else { 1 }, c, value, vbf, &msg, &extra, sk, 0, min_bits, g).expect("rangeproof");
                rangeproofs.push(rp);
                // surjection proof over 1..=4 inputs
                let n_in = 1 + i % 4;
                let mut inputs = Vec::new();
                for k in 0..n_in {
                    if k == 0 {
                        let ibf = tweak(&mut p);
                        inputs.push((Generator::new_blinded(secp, tag, ibf), tag, ibf));
                    } else {
                        let t = Tag::from(p.arr32());
                        let ibf = tweak(&mut p);
                        inputs.push((Generator::new_blinded(secp, t, ibf), t, ibf));
                    }
                }
                let mut rng = crate::seams::SimRng::new(&crate::seams::RngPlan { seed: 77 + i as u64, personality: crate::seams::Personality::Uniform });
                let sp = SurjectionProof::new(secp, &mut rng, tag, abf, &inputs).expect("surjection proof");
                surjproofs.push(sp);
            } else if i < 10 {
                // proofs with parameters the library's own blinding never uses: exact-value proofs (exponent -1, a
                // one-byte header, hardly any message capacity), a one-bit range, a non-zero exponent
                let (min_value, exp, min_bits) = [(value, -1i32, 0u8), (value, -1, 0), (value.saturating_sub(1), 0, 1), (1, 2, 10)][i - 6];
                let msg = p.bytes([0usize, 0, 3, 16][i - 6]);
                let sk = secret_key(&mut p);
                if let Ok(rp) = RangeProof::new(secp, min_value, c, value, vbf, &msg, &[], sk, exp, min_bits, g) {
                    rangeproofs.push(rp);
                }
            }
        }
        Pool { gens, comms, pks, tweaks, rangeproofs, surjproofs }
    })
}

// ------------------------------------------------------------------------------------------------
// small pieces

pub fn txid(p: &mut Prng) -> Txid {
    Txid::from_byte_array(p.arr32())
}

pub fn asset_id(p: &mut Prng) -> AssetId {
    AssetId::from_byte_array(p.arr32())
}

pub fn script(p: &mut Prng, max: usize) -> Script {
    match p.below(10) {
        0 => Script::new(),
        1 => {
            // p2pkh-shaped
            let mut v = vec![0x76, 0xa9, 0x14];
            v.extend(p.bytes(20));
            v.extend([0x88, 0xac]);
            Script::from(v)
        }
        2 => {
            let mut v = vec![0x00, 0x14];
            v.extend(p.bytes(20));
            Script::from(v)
        }
        3 => {
            let mut v = vec![0x00, 0x20];
            v.extend(p.bytes(32));
            Script::from(v)
        }
        4 => {
            let mut v = vec![0x51, 0x20];
            v.extend(p.bytes(32));
            Script::from(v)
        }
        5 => { let n = p.usize_below(40); Script::new_op_return(&p.bytes(n)) }
        _ => {
            // where the caller allows very large blobs, a quarter of them sit on the 128 KiB mark
            let n = if max >= 4_000_000 {
                // the largest byte vectors the decoders admit (MAX_VEC_SIZE = 4 000 000 bytes) and one byte less
                3_999_999 + p.usize_below(2)
            } else if max > 131_073 && p.chance(1, 4) {
                131_071 + p.usize_below(3)
            } else {
                p.len_biased(max)
            };
            Script::from(p.bytes(n))
        }
    }
}

#[derive(Clone, Copy, Debug, PartialEq, Eq)]
pub enum Conf {
    Null,
    Explicit,
    Confidential,
}

pub fn conf_kind(p: &mut Prng, allow_conf: bool, allow_null: bool) -> Conf {
    let r = p.below(10);
    if allow_conf && r < 4 {
        Conf::Confidential
    } else if allow_null && r < 6 {
        Conf::Null
    } else {
        Conf::Explicit
    }
}

pub fn asset(p: &mut Prng, k: Conf) -> Asset {
    match k {
        Conf::Null => Asset::Null,
        Conf::Explicit => Asset::Explicit(asset_id(p)),
        Conf::Confidential => Asset::Confidential(*p.pick(&pool().gens)),
    }
}

pub fn value(p: &mut Prng, k: Conf) -> Value {
    match k {
        Conf::Null => Value::Null,
        Conf::Explicit => Value::Explicit(match p.below(5) {
            0 => 0,
            1 => p.below(1000),
            2 => p.below(21_000_000 * 100_000_000),
            3 => u64::MAX - p.below(3),
            _ => p.u64(),
        }),
        Conf::Confidential => Value::Confidential(*p.pick(&pool().comms)),
    }
}

pub fn nonce(p: &mut Prng, k: Conf) -> Nonce {
    match k {
        Conf::Null => Nonce::Null,
        Conf::Explicit => Nonce::Explicit(p.arr32()),
        Conf::Confidential => Nonce::Confidential(*p.pick(&pool().pks)),
    }
}

pub fn sequence(p: &mut Prng) -> Sequence {
    Sequence(match p.below(6) {
        0 => 0xffff_ffff,
        1 => 0xffff_fffe,
        2 => 0xffff_fffd,
        3 => 0,
        4 => p.below(0x10000) as u32,
        _ => p.u32(),
    })
}

pub fn lock_time(p: &mut Prng) -> LockTime {
    LockTime::from_consensus(match p.below(5) {
        0 => 0,
        1 => p.below(500_000_000) as u32,
        2 => 500_000_000 + p.below(1_000_000_000) as u32,
        3 => 499_999_999 + p.below(2) as u32,
        _ => p.u32(),
    })
}

pub fn witness_stack(p: &mut Prng, max_items: usize, max_len: usize) -> Vec<Vec<u8>> {
    let n = if p.chance(1, 20) { p.usize_below(300) } else { p.usize_below(max_items + 1) };
    (0..n)
        .map(|_| {
            let l = if n > 20 { p.usize_below(4) } else { p.len_biased(max_len) };
            p.bytes(l)
        })
        .collect()
}

// ------------------------------------------------------------------------------------------------
// transactions

#[derive(Clone, Debug, Serialize, Deserialize, PartialEq, Eq)]
pub struct TxSpec {
    pub seed: u64,
    pub n_in: usize,
    pub n_out: usize,
    pub coinbase: bool,
    pub pegin: bool,
    pub issuance: bool,
    pub confidential: bool,
    pub in_witness: bool,
    pub out_witness: bool,
    /// largest script / witness item
    pub max_blob: usize,
    /// Some(n): the n-th real transaction of the repository's own vectors instead of a generated one
    #[serde(default)]
    pub corpus: Option<u32>,
    /// exactly ONE of the six witness fields is present in the whole transaction, at one input or output
    /// (each field alone must switch the witness flag on and survive the round trip)
    #[serde(default)]
    pub sparse_witness: bool,
}

impl TxSpec {
    pub fn draw(p: &mut Prng, max_in: usize, max_out: usize) -> TxSpec {
        let small = p.chance(3, 4);
        // rarely, counts on both sides of the one-byte varint boundary (252/253) — only where the caller allows
        // more than a handful of elements
        let many_in = max_in >= 8 && p.chance(1, 60);
        let many_out = max_out >= 8 && p.chance(1, 60);
        TxSpec {
            seed: p.u64(),
            n_in: if many_in { p.urange(250, 256) } else if small { p.urange(0, max_in.min(3)) } else { p.urange(0, max_in) },
            n_out: if many_out { p.urange(250, 256) } else if small { p.urange(0, max_out.min(3)) } else { p.urange(0, max_out) },
            coinbase: p.chance(1, 8),
            pegin: p.chance(1, 3),
            issuance: p.chance(1, 2),
            confidential: p.chance(2, 3),
            in_witness: p.chance(1, 2),
            out_witness: p.chance(1, 2),
            max_blob: if many_in || many_out { 40 } else if p.chance(1, 40) { 140_000 } else { *p.pick(&[40usize, 300, 300, 70_000]) },
            corpus: None,
            sparse_witness: p.chance(1, 6),
        }
    }
    /// like `draw`, but one run in `one_in` takes a real transaction from the repository's vectors
    pub fn draw_with_corpus(p: &mut Prng, max_in: usize, max_out: usize, one_in: u64) -> TxSpec {
        let mut s = TxSpec::draw(p, max_in, max_out);
        let n = p.u32();
        if p.chance(1, one_in) {
            if let Some(Ok(t)) = crate::corpus::tx(n) {
                // no coinbase vectors here: the worlds that take this path exclude coinbase inputs
                if !t.is_coinbase() {
                    s.corpus = Some(n);
                    s.n_in = t.input.len();
                    s.n_out = t.output.len();
                }
            }
        }
        s
    }
    /// simpler variants for the minimiser
    pub fn shrinks(&self) -> Vec<TxSpec> {
        let mut v = Vec::new();
        let mut push = |s: TxSpec| {
            if s != *self {
                v.push(s)
            }
        };
        push(TxSpec { corpus: None, ..self.clone() });
        push(TxSpec { sparse_witness: false, ..self.clone() });
        push(TxSpec { n_in: self.n_in / 2, ..self.clone() });
        push(TxSpec { n_out: self.n_out / 2, ..self.clone() });
        push(TxSpec { n_in: self.n_in.saturating_sub(1), ..self.clone() });
        push(TxSpec { n_out: self.n_out.saturating_sub(1), ..self.clone() });
        push(TxSpec { coinbase: false, ..self.clone() });
        push(TxSpec { pegin: false, ..self.clone() });
        push(TxSpec { issuance: false, ..self.clone() });
        push(TxSpec { confidential: false, ..self.clone() });
        push(TxSpec { in_witness: false, ..self.clone() });
        push(TxSpec { out_witness: false, ..self.clone() });
        push(TxSpec { max_blob: self.max_blob.min(40), ..self.clone() });
        v
    }
}

pub fn issuance(p: &mut Prng, allow_conf: bool) -> AssetIssuance {
    // canonical: not (amount null and inflation keys null)
    let (ka, ki) = loop {
        let a = conf_kind(p, allow_conf, true);
        let i = conf_kind(p, allow_conf, true);
        if a != Conf::Null || i != Conf::Null {
            break (a, i);
        }
    };
    AssetIssuance {
        asset_blinding_nonce: if p.coin() { Tweak::from_inner([0u8; 32]).expect("zero tweak") } else { *p.pick(&pool().tweaks) },
        asset_entropy: p.arr32(),
        amount: value(p, ka),
        inflation_keys: value(p, ki),
    }
}

pub fn txin(p: &mut Prng, s: &TxSpec, first: bool, with_witness: bool) -> TxIn {
    let mut i = TxIn::default();
    if s.coinbase && first {
        i.previous_output = OutPoint::null();
    } else {
        let vout = match p.below(16) {
            0..=2 => 0,
            3..=5 => p.below(4) as u32,
            6..=8 => (1 << 30) - 1,
            // index 0xffffffff under a non-null txid: no flag can be carried (canonical only without pegin / issuance)
            9 => 0xffff_ffff,
            _ => p.below(1 << 30) as u32,
        };
        i.previous_output = OutPoint::new(txid(p), vout);
        i.is_pegin = vout != 0xffff_ffff && s.pegin && p.chance(1, 2);
        if vout != 0xffff_ffff && s.issuance && p.chance(1, 2) {
            i.asset_issuance = issuance(p, s.confidential);
        }
        // index 2^30-1 with both flags encodes as 0xffffffff, which the format reserves for "no flags"
        // (coinbase marker): not a canonical value (DESIGN §4 C01 generator domain)
        if i.is_pegin && i.has_issuance() && i.previous_output.vout == (1 << 30) - 1 {
            i.previous_output.vout -= 1;
        }
    }
    i.script_sig = script(p, s.max_blob);
    i.sequence = sequence(p);
    if with_witness && s.in_witness && p.chance(2, 3) {
        let pl = pool();
        i.witness = TxInWitness {
            amount_rangeproof: if p.chance(1, 3) { Some(Box::new(p.pick(&pl.rangeproofs).clone())) } else { None },
            inflation_keys_rangeproof: if p.chance(1, 4) { Some(Box::new(p.pick(&pl.rangeproofs).clone())) } else { None },
            script_witness: if p.chance(2, 3) { witness_stack(p, 4, s.max_blob) } else { vec![] },
            pegin_witness: if p.chance(1, 3) { witness_stack(p, 6, s.max_blob.min(400)) } else { vec![] },
        };
    }
    i
}

pub fn txout(p: &mut Prng, s: &TxSpec, with_witness: bool) -> TxOut {
    let mut o = TxOut {
        asset: { let k = conf_kind(p, s.confidential, true); asset(p, k) },
        value: { let k = conf_kind(p, s.confidential, true); value(p, k) },
        nonce: { let k = conf_kind(p, s.confidential, true); nonce(p, k) },
        script_pubkey: script(p, s.max_blob),
        witness: TxOutWitness::default(),
    };
    if with_witness && s.out_witness && p.chance(2, 3) {
        let pl = pool();
        o.witness = TxOutWitness {
            surjection_proof: if p.chance(2, 3) { Some(Box::new(p.pick(&pl.surjproofs).clone())) } else { None },
            rangeproof: if p.chance(2, 3) { Some(Box::new(p.pick(&pl.rangeproofs).clone())) } else { None },
        };
    }
    o
}

pub fn tx(s: &TxSpec) -> Transaction {
    if let Some(n) = s.corpus {
        // a vector the changed library no longer decodes is reported by world `codec` (C01.rtt corpus|rejected);
        // elsewhere the generated transaction takes its place
        if let Some(Ok(t)) = crate::corpus::tx(n) {
            return t;
        }
    }
    let mut p = Prng::from_u64(s.seed);
    let version = match p.below(4) {
        0 => 1,
        1 => 2,
        2 => 0,
        _ => p.u32(),
    };
    let lt = lock_time(&mut p);
    let mut input: Vec<TxIn> = (0..s.n_in).map(|k| txin(&mut p, s, k == 0, true)).collect();
    let mut output: Vec<TxOut> = (0..s.n_out).map(|_| txout(&mut p, s, true)).collect();
    if s.sparse_witness && input.len() + output.len() > 0 {
        for i in &mut input {
            i.witness = TxInWitness::default();
        }
        for o in &mut output {
            o.witness = TxOutWitness::default();
        }
        let pl = pool();
        let field = p.below(6);
        if (field < 4 && !input.is_empty()) || output.is_empty() {
            let k = p.usize_below(input.len());
            let w = &mut input[k].witness;
            match field % 4 {
                0 => w.amount_rangeproof = Some(Box::new(p.pick(&pl.rangeproofs).clone())),
                1 => w.inflation_keys_rangeproof = Some(Box::new(p.pick(&pl.rangeproofs).clone())),
                2 => w.script_witness = vec![p.bytes(3)],
                _ => w.pegin_witness = vec![p.bytes(3)],
            }
        } else {
            let k = p.usize_below(output.len());
            let w = &mut output[k].witness;
            if field == 4 {
                w.surjection_proof = Some(Box::new(p.pick(&pl.surjproofs).clone()));
            } else {
                w.rangeproof = Some(Box::new(p.pick(&pl.rangeproofs).clone()));
            }
        }
    }
    Transaction { version, lock_time: lt, input, output }
}

/// spent outputs matching a transaction's inputs (for sighash worlds): arbitrary but fixed
pub fn prevouts(seed: u64, n: usize, confidential: bool) -> Vec<TxOut> {
    let mut p = Prng::from_u64(seed ^ 0x50_52_45_56);
    let s = TxSpec { seed, n_in: 0, n_out: n, coinbase: false, pegin: false, issuance: false, confidential, in_witness: false, out_witness: true, max_blob: 60, corpus: None, sparse_witness: false };
    (0..n).map(|_| txout(&mut p, &s, true)).collect()
}

// blinding-factor helpers used by the ct / psetflow worlds
pub fn abf(p: &mut Prng) -> AssetBlindingFactor {
    AssetBlindingFactor::from_slice(tweak(p).as_ref()).expect("valid")
}
pub fn vbf(p: &mut Prng) -> ValueBlindingFactor {
    ValueBlindingFactor::from_slice(tweak(p).as_ref()).expect("valid")
}

pub use zkp::ZERO_TWEAK;

// ------------------------------------------------------------------------------------------------
// blocks, headers, dynafed params

use elements::dynafed::{ElidedRoot, FullParams, Params};
use elements::{Block, BlockExtData, BlockHash, BlockHeader, TxMerkleNode};

pub fn params(p: &mut Prng, max_blob: usize) -> Params {
    match p.below(3) {
        0 => Params::Null,
        1 => Params::Compact { signblockscript: script(p, max_blob), signblock_witness_limit: p.u32(), elided_root: ElidedRoot::from_byte_array(p.arr32()) },
        _ => {
            let n_ext = p.usize_below(4);
            Params::Full(FullParams::new(
                script(p, max_blob),
                p.u32(),
                elements::bitcoin::ScriptBuf::from_bytes({ let n = p.len_biased(max_blob); p.bytes(n) }),
                { let n = p.len_biased(max_blob); p.bytes(n) },
                (0..n_ext).map(|_| { let n = p.len_biased(max_blob.min(300)); p.bytes(n) }).collect(),
            ))
        }
    }
}

pub fn header(p: &mut Prng, max_blob: usize) -> BlockHeader {
    let ext = if p.coin() {
        BlockExtData::Proof { challenge: script(p, max_blob), solution: script(p, max_blob) }
    } else {
        BlockExtData::Dynafed { current: params(p, max_blob), proposed: params(p, max_blob), signblock_witness: witness_stack(p, 4, max_blob.min(300)) }
    };
    BlockHeader {
        version: p.u32() & 0x7fff_ffff,
        prev_blockhash: BlockHash::from_byte_array(p.arr32()),
        merkle_root: TxMerkleNode::from_byte_array(p.arr32()),
        time: p.u32(),
        height: p.u32(),
        ext,
    }
}

pub fn block(seed: u64, n_tx: usize, txs: &TxSpec) -> Block {
    let mut p = Prng::from_u64(seed);
    let h = header(&mut p, txs.max_blob.min(300));
    let txdata = (0..n_tx)
        .map(|_| {
            let mut s = txs.clone();
            s.seed = p.u64();
            s.coinbase = false;
            tx(&s)
        })
        .collect();
    Block { header: h, txdata }
}
