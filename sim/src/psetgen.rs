//! Well-formed PSET generator (DESIGN appendix D), raw key/pair generators, and the byzantine
//! PSET re-encoder (appendix E.8).

use crate::gen::{self, pool, TxSpec};
use crate::medium::{self, Delivery, Edit};
use crate::prng::Prng;
use elements::bitcoin::bip32::{ChildNumber, DerivationPath, Fingerprint, KeySource, Xpriv, Xpub};
use elements::bitcoin::key::XOnlyPublicKey;
use elements::bitcoin::{self, PublicKey};
use elements::hashes::{hash160, ripemd160, sha256, sha256d, Hash};
use elements::pset::{raw, Input, Output, PartiallySignedTransaction as Pset, PsbtSighashType, TapTree};
use elements::schnorr::SchnorrSig;
use elements::secp256k1_zkp as zkp;
use elements::taproot::{ControlBlock, LeafVersion, TapLeafHash, TapNodeHash, TaprootBuilder};
use elements::{locktime, BlockHash, LockTime, SchnorrSighashType, Script};
use serde::{Deserialize, Serialize};
use std::sync::OnceLock;

#[derive(Clone, Debug, Serialize, Deserialize, PartialEq, Eq)]
pub struct PsetSpec {
    pub seed: u64,
    pub n_in: usize,
    pub n_out: usize,
    pub bip174: bool,
    pub taproot: bool,
    pub elements: bool,
    pub extras: bool,
    pub utxos: bool,
    pub tap_leaves_max: usize,
    pub blinded_outputs: bool,
    pub elip: bool,
    pub globals: bool,
    /// Some(n): the n-th real PSET of the repository's own vectors instead of a generated one
    #[serde(default)]
    pub corpus: Option<u32>,
    /// 1: exactly 10 000 (minimal) inputs, 2: exactly 10 000 outputs, 3: both — the largest counts the decoder admits
    #[serde(default)]
    pub at_count_limit: u8,
}

impl PsetSpec {
    pub fn draw(p: &mut Prng) -> PsetSpec {
        let small = p.chance(2, 3);
        PsetSpec {
            seed: p.u64(),
            n_in: if small { p.urange(0, 2) } else { p.urange(0, 5) },
            n_out: if small { p.urange(0, 2) } else { p.urange(0, 5) },
            bip174: p.chance(2, 3),
            taproot: p.chance(1, 2),
            elements: p.chance(2, 3),
            extras: p.chance(1, 2),
            utxos: p.chance(1, 2),
            tap_leaves_max: *p.pick(&[0usize, 1, 2, 3, 5, 8]),
            blinded_outputs: p.chance(1, 2),
            elip: p.chance(1, 3),
            globals: p.chance(2, 3),
            corpus: None,
            at_count_limit: if p.chance(1, 4000) { 1 + p.below(3) as u8 } else { 0 },
        }
    }
    pub fn draw_with_corpus(p: &mut Prng, one_in: u64) -> PsetSpec {
        let mut s = PsetSpec::draw(p);
        let n = p.u32();
        if p.chance(1, one_in) {
            s.corpus = Some(n);
        }
        s
    }
    pub fn shrinks(&self) -> Vec<PsetSpec> {
        let mut v = Vec::new();
        let mut push = |s: PsetSpec| {
            if s != *self {
                v.push(s)
            }
        };
        push(PsetSpec { corpus: None, ..self.clone() });
        push(PsetSpec { at_count_limit: 0, ..self.clone() });
        push(PsetSpec { n_in: self.n_in / 2, ..self.clone() });
        push(PsetSpec { n_out: self.n_out / 2, ..self.clone() });
        push(PsetSpec { n_in: self.n_in.saturating_sub(1), ..self.clone() });
        push(PsetSpec { n_out: self.n_out.saturating_sub(1), ..self.clone() });
        push(PsetSpec { bip174: false, ..self.clone() });
        push(PsetSpec { taproot: false, ..self.clone() });
        push(PsetSpec { elements: false, ..self.clone() });
        push(PsetSpec { extras: false, ..self.clone() });
        push(PsetSpec { utxos: false, ..self.clone() });
        push(PsetSpec { tap_leaves_max: self.tap_leaves_max / 2, ..self.clone() });
        push(PsetSpec { blinded_outputs: false, ..self.clone() });
        push(PsetSpec { elip: false, ..self.clone() });
        push(PsetSpec { globals: false, ..self.clone() });
        v
    }
}

struct KeyPool {
    xpubs: Vec<Xpub>,
    xonly: Vec<XOnlyPublicKey>,
}

fn keypool() -> &'static KeyPool {
    static P: OnceLock<KeyPool> = OnceLock::new();
    P.get_or_init(|| {
        let secp = gen::secp();
        let mut p = Prng::from_u64(0x4b45_5950_4f4f_4c);
        let mut xpubs = Vec::new();
        for _ in 0..8 {
            let seed = p.bytes(32);
            let xpriv = Xpriv::new_master(bitcoin::Network::Bitcoin, &seed).expect("xpriv");
            xpubs.push(Xpub::from_priv(secp, &xpriv));
        }
        let xonly = pool().pks.iter().map(|pk| pk.x_only_public_key().0).collect();
        KeyPool { xpubs, xonly }
    })
}

pub fn key_source(p: &mut Prng, max_path: usize) -> KeySource {
    let n = p.usize_below(max_path + 1);
    let path: Vec<ChildNumber> = (0..n).map(|_| ChildNumber::from(if p.coin() { p.below(20) as u32 } else { p.u32() })).collect();
    let mut fp = [0u8; 4];
    p.fill(&mut fp);
    (Fingerprint::from(fp), DerivationPath::from(path))
}

pub fn btc_pubkey(p: &mut Prng) -> PublicKey {
    PublicKey { inner: *p.pick(&pool().pks), compressed: p.chance(3, 4) }
}

pub fn xonly(p: &mut Prng) -> XOnlyPublicKey {
    *p.pick(&keypool().xonly)
}

pub fn leaf_version(p: &mut Prng) -> LeafVersion {
    if p.chance(3, 4) {
        LeafVersion::default()
    } else {
        loop {
            let v = (p.u8()) & 0xfe;
            if v != 0x50 {
                return LeafVersion::from_u8(v).expect("even, not annex");
            }
        }
    }
}

pub fn schnorr_sig(p: &mut Prng) -> SchnorrSig {
    let b = p.bytes(64);
    SchnorrSig { sig: zkp::schnorr::Signature::from_slice(&b).expect("64 bytes"), hash_ty: *p.pick(&crate::worlds::sighash::SCHNORR[..7]) }
}

pub fn control_block(p: &mut Prng) -> ControlBlock {
    let depth = *p.pick(&[0usize, 1, 2, 3, 127, 128]);
    // built from its parts, not through the parser under test: a parser that refuses a well-formed block (say, one with
    // the maximal 128 nodes) must show up as a failed round trip, not as a generator that cannot build its workload
    ControlBlock {
        leaf_version: leaf_version(p),
        output_key_parity: if p.coin() { zkp::Parity::Even } else { zkp::Parity::Odd },
        internal_key: xonly(p),
        merkle_branch: elements::taproot::TaprootMerkleBranch::from_inner((0..depth).map(|_| TapNodeHash::from_byte_array(p.arr32())).collect()).expect("at most 128 nodes"),
    }
}

/// a random binary tree shape with `n` leaves as a DFS depth sequence
pub fn tree_depths(p: &mut Prng, n: usize) -> Vec<usize> {
    fn rec(p: &mut Prng, n: usize, depth: usize, out: &mut Vec<usize>) {
        if n == 1 {
            out.push(depth);
        } else {
            let left = 1 + p.usize_below(n - 1);
            rec(p, left, depth + 1, out);
            rec(p, n - left, depth + 1, out);
        }
    }
    let mut out = Vec::new();
    rec(p, n.max(1), 0, &mut out);
    out
}

pub fn tap_tree(p: &mut Prng, n_leaves: usize) -> TapTree {
    let mut b = TaprootBuilder::new();
    // rarely a maximally deep comb: leaves at depths 1, 2, ..., 127, 128, 128 (the depth limit of the format)
    let depths = if n_leaves >= 5 && p.chance(1, 40) {
        let mut d: Vec<usize> = (1..=128).collect();
        d.push(128);
        d
    } else {
        tree_depths(p, n_leaves)
    };
    for d in depths {
        // leaf scripts across the one-byte / three-byte length-prefix boundary (252..254 bytes) now and then
        let max = if p.chance(1, 3) { 300 } else { 40 };
        b = b.add_leaf_with_ver(d, gen::script(p, max), leaf_version(p)).expect("dfs order");
    }
    TapTree::from_inner(b).expect("complete")
}

pub fn raw_key(p: &mut Prng) -> raw::Key {
    // rarely: the largest key data the decoder admits (MAX_VEC_SIZE = 4 000 000 bytes), or one byte less
    if p.chance(1, 150) {
        let n = 3_999_999 + p.usize_below(2);
        return raw::Key { type_value: p.u8(), key: p.bytes(n) };
    }
    let n = p.len_biased(300);
    raw::Key { type_value: p.u8(), key: p.bytes(n) }
}
pub fn raw_pair(p: &mut Prng) -> raw::Pair {
    let n = p.len_biased(600);
    raw::Pair { key: raw_key(p), value: p.bytes(n) }
}
pub fn prop_key(p: &mut Prng) -> raw::ProprietaryKey {
    let np = p.len_biased(30);
    let nk = p.len_biased(300);
    raw::ProprietaryKey { prefix: if p.chance(1, 3) { b"pset".to_vec() } else { p.bytes(np) }, subtype: p.u8(), key: p.bytes(nk) }
}

/// proprietary key that no map interprets
pub fn foreign_prop_key(p: &mut Prng, first_free_subtype: u8) -> raw::ProprietaryKey {
    let nk = p.len_biased(40);
    if p.chance(1, 4) {
        // a near miss: the subtype and key shape of a pair the maps DO interpret, under a prefix that is not "pset"
        let prefix: &[u8] = *p.pick(&[&b""[..], b"pse", b"psett", b"PSET", b"qset", b"pset\0", b"p"]);
        let nk = *p.pick(&[0usize, 0, 32, 33]);
        // half of them: exactly the key shape of a global scalar (subtype 0, 32-byte key) or of the modifiable flag
        // (subtype 1, no key data)
        if p.coin() {
            return if p.coin() { raw::ProprietaryKey { prefix: prefix.to_vec(), subtype: 0, key: p.bytes(32) } } else { raw::ProprietaryKey { prefix: prefix.to_vec(), subtype: 1, key: vec![] } };
        }
        return raw::ProprietaryKey { prefix: prefix.to_vec(), subtype: p.below(0x17) as u8, key: p.bytes(nk) };
    }
    if p.chance(1, 3) {
        raw::ProprietaryKey { prefix: b"pset".to_vec(), subtype: first_free_subtype.saturating_add(p.below(40) as u8), key: p.bytes(nk) }
    } else {
        let np = p.usize_below(12);
        let mut prefix = p.bytes(np);
        if prefix == b"pset" {
            prefix.push(b'x');
        }
        raw::ProprietaryKey { prefix, subtype: p.u8(), key: p.bytes(nk) }
    }
}

fn unknown_key(p: &mut Prng, lo: u8, hi: u8) -> raw::Key {
    let n = p.len_biased(40);
    raw::Key { type_value: lo + p.below((hi - lo) as u64 + 1) as u8, key: p.bytes(n) }
}

fn small_tx_spec(p: &mut Prng) -> TxSpec {
    let mut s = TxSpec::draw(p, 3, 3);
    s.max_blob = 60;
    s
}

fn btc_tx(p: &mut Prng) -> bitcoin::Transaction {
    use bitcoin::absolute::LockTime as BL;
    let n_in = p.urange(1, 3);
    let n_out = p.urange(0, 3);
    bitcoin::Transaction {
        version: bitcoin::transaction::Version(p.u32() as i32),
        lock_time: BL::from_consensus(p.u32()),
        input: (0..n_in)
            .map(|_| bitcoin::TxIn {
                previous_output: bitcoin::OutPoint { txid: { use elements::bitcoin::hashes::Hash as _; bitcoin::Txid::from_byte_array(p.arr32()) }, vout: p.u32() },
                script_sig: bitcoin::ScriptBuf::from_bytes({ let n = p.len_biased(60); p.bytes(n) }),
                sequence: bitcoin::Sequence(p.u32()),
                witness: if p.coin() { bitcoin::Witness::from_slice(&gen::witness_stack(p, 3, 40)) } else { bitcoin::Witness::new() },
            })
            .collect(),
        output: (0..n_out).map(|_| bitcoin::TxOut { value: bitcoin::Amount::from_sat(p.below(21_000_000 * 100_000_000)), script_pubkey: bitcoin::ScriptBuf::from_bytes({ let n = p.len_biased(60); p.bytes(n) }) }).collect(),
    }
}

pub fn input(p: &mut Prng, s: &PsetSpec) -> Input {
    let pl = pool();
    let mut i = Input::default();
    i.previous_txid = gen::txid(p);
    i.previous_output_index = match p.below(4) {
        0 => 0,
        1 => p.below(8) as u32,
        _ => p.u32(),
    };
    let opt = |p: &mut Prng, on: bool| on && p.chance(1, 3);
    if s.utxos {
        if p.chance(1, 3) {
            i.non_witness_utxo = Some(gen::tx(&small_tx_spec(p)));
        }
        if p.chance(1, 2) {
            let ts = small_tx_spec(p);
            i.witness_utxo = Some(gen::txout(p, &ts, false));
        }
    }
    if s.bip174 {
        for _ in 0..p.usize_below(3) {
            let n = p.len_biased(80);
            i.partial_sigs.insert(btc_pubkey(p), p.bytes(n));
        }
        if opt(p, true) {
            i.sighash_type = Some(PsbtSighashType::from_u32(if p.coin() { *p.pick(&[0u32, 1, 2, 3, 0x81, 0x82, 0x83]) } else { p.u32() }));
        }
        if opt(p, true) {
            i.redeem_script = Some(gen::script(p, 80));
        }
        if opt(p, true) {
            i.witness_script = Some(gen::script(p, 300));
        }
        for _ in 0..p.usize_below(3) {
            i.bip32_derivation.insert(btc_pubkey(p), key_source(p, 6));
        }
        if opt(p, true) {
            i.final_script_sig = Some(gen::script(p, 80));
        }
        if opt(p, true) {
            i.final_script_witness = Some(gen::witness_stack(p, 4, 80));
        }
        for _ in 0..p.usize_below(2) {
            let n = p.len_biased(60);
            let pre = p.bytes(n);
            match p.below(4) {
                0 => {
                    i.ripemd160_preimages.insert(ripemd160::Hash::hash(&pre), pre);
                }
                1 => {
                    i.sha256_preimages.insert(sha256::Hash::hash(&pre), pre);
                }
                2 => {
                    i.hash160_preimages.insert(hash160::Hash::hash(&pre), pre);
                }
                _ => {
                    i.hash256_preimages.insert(sha256d::Hash::hash(&pre), pre);
                }
            }
        }
        if opt(p, true) {
            i.sequence = Some(gen::sequence(p));
        }
        if opt(p, true) {
            i.required_time_locktime = Some(locktime::Time::from_consensus(500_000_000 + p.below(3_000_000_000) as u32).expect("time"));
        }
        if opt(p, true) {
            i.required_height_locktime = Some(locktime::Height::from_consensus(p.below(500_000_000) as u32).expect("height"));
        }
    }
    if s.taproot {
        if opt(p, true) {
            i.tap_key_sig = Some(schnorr_sig(p));
        }
        for _ in 0..p.usize_below(3) {
            i.tap_script_sigs.insert((xonly(p), TapLeafHash::from_byte_array(p.arr32())), schnorr_sig(p));
        }
        for _ in 0..p.usize_below(3) {
            i.tap_scripts.insert(control_block(p), (gen::script(p, 60), leaf_version(p)));
        }
        for _ in 0..p.usize_below(3) {
            let n = p.usize_below(3);
            i.tap_key_origins.insert(xonly(p), ((0..n).map(|_| TapLeafHash::from_byte_array(p.arr32())).collect(), key_source(p, 5)));
        }
        if opt(p, true) {
            i.tap_internal_key = Some(xonly(p));
        }
        if opt(p, true) {
            i.tap_merkle_root = Some(TapNodeHash::from_byte_array(p.arr32()));
        }
    }
    if s.elements {
        if opt(p, true) {
            i.issuance_value_amount = Some(p.u64());
        }
        if opt(p, true) {
            i.issuance_value_comm = Some(*p.pick(&pl.comms));
        }
        if opt(p, true) {
            i.issuance_value_rangeproof = Some(Box::new(p.pick(&pl.rangeproofs).clone()));
        }
        if opt(p, true) {
            i.issuance_keys_rangeproof = Some(Box::new(p.pick(&pl.rangeproofs).clone()));
        }
        if opt(p, true) {
            i.pegin_tx = Some(btc_tx(p));
        }
        if opt(p, true) {
            let n = p.len_biased(200);
            i.pegin_txout_proof = Some(p.bytes(n));
        }
        if opt(p, true) {
            i.pegin_genesis_hash = Some(BlockHash::from_byte_array(p.arr32()));
        }
        if opt(p, true) {
            i.pegin_claim_script = Some(gen::script(p, 60));
        }
        if opt(p, true) {
            i.pegin_value = Some(p.u64());
        }
        if opt(p, true) {
            i.pegin_witness = Some(gen::witness_stack(p, 6, 100));
        }
        if opt(p, true) {
            i.issuance_inflation_keys = Some(p.u64());
        }
        if opt(p, true) {
            i.issuance_inflation_keys_comm = Some(*p.pick(&pl.comms));
        }
        if opt(p, true) {
            i.issuance_blinding_nonce = Some(if p.coin() { gen::ZERO_TWEAK } else { *p.pick(&pl.tweaks) });
        }
        if opt(p, true) {
            i.issuance_asset_entropy = Some(p.arr32());
        }
        if opt(p, true) {
            i.in_utxo_rangeproof = Some(Box::new(p.pick(&pl.rangeproofs).clone()));
        }
        if opt(p, true) {
            i.in_issuance_blind_value_proof = Some(Box::new(p.pick(&pl.rangeproofs).clone()));
        }
        if opt(p, true) {
            i.in_issuance_blind_inflation_keys_proof = Some(Box::new(p.pick(&pl.rangeproofs).clone()));
        }
        if opt(p, true) {
            i.amount = Some(p.u64());
        }
        if opt(p, true) {
            i.blind_value_proof = Some(Box::new(p.pick(&pl.rangeproofs).clone()));
        }
        if opt(p, true) {
            i.asset = Some(gen::asset_id(p));
        }
        if opt(p, true) {
            i.blind_asset_proof = Some(Box::new(p.pick(&pl.surjproofs).clone()));
        }
        if opt(p, true) {
            i.blinded_issuance = Some(p.u8());
        }
    }
    if s.extras {
        for _ in 0..p.usize_below(3) {
            let k = foreign_prop_key(p, 0x16);
            let n = if k.prefix != b"pset" && p.coin() { *p.pick(&[0usize, 1, 4, 8, 32, 33]) } else { p.len_biased(60) };
            i.proprietary.insert(k, p.bytes(n));
        }
        for _ in 0..p.usize_below(3) {
            let n = p.len_biased(60);
            let k = if p.coin() { unknown_key(p, 0x19, 0xfb) } else { raw::Key { type_value: 0x09, key: p.bytes(3) } };
            i.unknown.insert(k, p.bytes(n));
        }
    }
    if s.elip && p.coin() {
        i.set_abf(gen::abf(p));
    }
    i
}

pub fn output(p: &mut Prng, s: &PsetSpec, n_inputs: usize) -> Output {
    let pl = pool();
    let mut o = Output::default();
    o.script_pubkey = gen::script(p, 80);
    let opt = |p: &mut Prng, on: bool| on && p.chance(1, 3);
    let fully_blinded = s.blinded_outputs && p.chance(1, 2);
    // amount / asset: explicit, committed, or both
    match p.below(3) {
        0 => o.amount = Some(p.u64()),
        1 if s.elements || fully_blinded => o.amount_comm = Some(*p.pick(&pl.comms)),
        _ => {
            o.amount = Some(p.below(1 << 50));
            if s.elements && p.coin() {
                o.amount_comm = Some(*p.pick(&pl.comms));
            }
        }
    }
    match p.below(3) {
        0 => o.asset = Some(gen::asset_id(p)),
        1 if s.elements || fully_blinded => o.asset_comm = Some(*p.pick(&pl.gens)),
        _ => {
            o.asset = Some(gen::asset_id(p));
            if s.elements && p.coin() {
                o.asset_comm = Some(*p.pick(&pl.gens));
            }
        }
    }
    if fully_blinded {
        o.blinding_key = Some(btc_pubkey(p));
        o.blinder_index = Some(if n_inputs > 0 { p.below(n_inputs as u64) as u32 } else { p.u32() });
        if o.amount_comm.is_none() {
            o.amount_comm = Some(*p.pick(&pl.comms));
        }
        if o.asset_comm.is_none() {
            o.asset_comm = Some(*p.pick(&pl.gens));
        }
        o.value_rangeproof = Some(Box::new(p.pick(&pl.rangeproofs).clone()));
        o.asset_surjection_proof = Some(Box::new(p.pick(&pl.surjproofs).clone()));
        o.ecdh_pubkey = Some(btc_pubkey(p));
    } else if s.blinded_outputs && p.coin() {
        // marked for blinding, blinding data absent
        o.blinding_key = Some(btc_pubkey(p));
        o.blinder_index = Some(p.below(n_inputs.max(1) as u64) as u32);
        o.amount_comm = None;
        o.asset_comm = None;
        if o.amount.is_none() {
            o.amount = Some(p.below(1 << 50));
        }
        if o.asset.is_none() {
            o.asset = Some(gen::asset_id(p));
        }
    } else if s.elements {
        // not marked for blinding: any subset of the proof fields may be present
        if opt(p, true) {
            o.value_rangeproof = Some(Box::new(p.pick(&pl.rangeproofs).clone()));
        }
        if opt(p, true) {
            o.asset_surjection_proof = Some(Box::new(p.pick(&pl.surjproofs).clone()));
        }
        if opt(p, true) {
            o.ecdh_pubkey = Some(btc_pubkey(p));
        }
        if opt(p, true) {
            o.blinder_index = Some(p.u32());
        }
    }
    if s.elements {
        if opt(p, true) {
            o.blind_value_proof = Some(Box::new(p.pick(&pl.rangeproofs).clone()));
        }
        if opt(p, true) {
            o.blind_asset_proof = Some(Box::new(p.pick(&pl.surjproofs).clone()));
        }
    }
    if s.bip174 {
        if opt(p, true) {
            o.redeem_script = Some(gen::script(p, 80));
        }
        if opt(p, true) {
            o.witness_script = Some(gen::script(p, 200));
        }
        for _ in 0..p.usize_below(3) {
            o.bip32_derivation.insert(btc_pubkey(p), key_source(p, 6));
        }
    }
    if s.taproot {
        if opt(p, true) {
            o.tap_internal_key = Some(xonly(p));
        }
        if s.tap_leaves_max > 0 && p.chance(1, 2) {
            let n = p.urange(1, s.tap_leaves_max);
            o.tap_tree = Some(tap_tree(p, n));
        }
        for _ in 0..p.usize_below(3) {
            let n = p.usize_below(3);
            o.tap_key_origins.insert(xonly(p), ((0..n).map(|_| TapLeafHash::from_byte_array(p.arr32())).collect(), key_source(p, 5)));
        }
    }
    if s.extras {
        for _ in 0..p.usize_below(3) {
            let n = p.len_biased(60);
            let mut k = foreign_prop_key(p, 0x0b);
            if k.prefix == b"pset" && k.subtype == 0 && p.coin() {
                k.subtype = 0; // subtype 0x00 is not interpreted by the output map
            }
            let n = if k.prefix != b"pset" && p.coin() { *p.pick(&[0usize, 1, 4, 8, 32, 33]) } else { n };
            o.proprietary.insert(k, p.bytes(n));
        }
        for _ in 0..p.usize_below(3) {
            let n = p.len_biased(60);
            o.unknown.insert(unknown_key(p, 0x08, 0xfb), p.bytes(n));
        }
    }
    if s.elip && p.coin() {
        o.set_abf(gen::abf(p));
    }
    o
}

pub fn pset(s: &PsetSpec) -> Pset {
    if let Some(n) = s.corpus {
        if let Some(Ok(ps)) = crate::corpus::pset(n) {
            return ps;
        }
    }
    let mut p = Prng::from_u64(s.seed);
    let mut ps = Pset::new_v2();
    if s.globals {
        ps.global.tx_data.version = if p.coin() { 2 } else { p.u32() };
        if p.coin() {
            ps.global.tx_data.fallback_locktime = Some(gen::lock_time(&mut p));
        }
        if p.coin() {
            ps.global.tx_data.tx_modifiable = Some(p.u8());
        }
        if p.coin() {
            ps.global.elements_tx_modifiable_flag = Some(p.u8());
        }
        let kp = keypool();
        for _ in 0..p.usize_below(3) {
            ps.global.xpub.insert(*p.pick(&kp.xpubs), key_source(&mut p, 8));
        }
        let n_sc = p.usize_below(3);
        let mut seen = Vec::new();
        for _ in 0..n_sc {
            let t = gen::tweak(&mut p);
            if !seen.contains(&t) {
                seen.push(t);
            }
        }
        ps.global.scalars = seen;
        if s.extras {
            for _ in 0..p.usize_below(3) {
                let k = foreign_prop_key(&mut p, 0x02);
                let n = if k.prefix != b"pset" && p.coin() { *p.pick(&[0usize, 1, 4, 8, 32, 33]) } else { p.len_biased(60) };
                ps.global.proprietary.insert(k, p.bytes(n));
            }
            for _ in 0..p.usize_below(3) {
                let n = p.len_biased(60);
                ps.global.unknown.insert(unknown_key(&mut p, 0x07, 0xfa), p.bytes(n));
            }
        }
    }
    for _ in 0..s.n_in {
        ps.add_input(input(&mut p, s));
    }
    for _ in 0..s.n_out {
        ps.add_output(output(&mut p, s, s.n_in));
    }
    if s.at_count_limit & 1 != 0 {
        let txid = gen::txid(&mut p);
        while ps.n_inputs() < 10_000 {
            let k = ps.n_inputs() as u32;
            ps.add_input(Input::from_prevout(elements::OutPoint::new(txid, k)));
        }
    }
    if s.at_count_limit & 2 != 0 {
        let a = gen::asset_id(&mut p);
        while ps.n_outputs() < 10_000 {
            ps.add_output(Output::new_explicit(Script::new(), ps.n_outputs() as u64, a, None));
        }
    }
    if s.elip {
        use elements::pset::elip100::{AssetMetadata, TokenMetadata};
        for _ in 0..p.usize_below(3) {
            let n = p.len_biased(300);
            let contract: String = (0..n).map(|_| (b' ' + (p.below(90) as u8)) as char).collect();
            ps.add_asset_metadata(gen::asset_id(&mut p), &AssetMetadata::new(contract, elements::OutPoint::new(gen::txid(&mut p), p.u32())));
        }
        for _ in 0..p.usize_below(2) {
            ps.add_token_metadata(gen::asset_id(&mut p), &TokenMetadata::new(gen::asset_id(&mut p), p.coin()));
        }
    }
    ps
}

// ------------------------------------------------------------------------------------------------
// byzantine PSET re-encoder: well-framed but forbidden

struct RawPair {
    start: usize,
    end: usize,
    key_type: u8,
    key_data: Vec<u8>,
}
struct RawMap {
    pairs: Vec<RawPair>,
    sep_pos: usize,
}

fn parse_maps(b: &[u8]) -> Option<Vec<RawMap>> {
    fn rv(b: &[u8], pos: usize) -> Option<(u64, usize)> {
        let f = *b.get(pos)?;
        match f {
            0xFD => Some((u16::from_le_bytes(b.get(pos + 1..pos + 3)?.try_into().ok()?) as u64, 3)),
            0xFE => Some((u32::from_le_bytes(b.get(pos + 1..pos + 5)?.try_into().ok()?) as u64, 5)),
            0xFF => Some((u64::from_le_bytes(b.get(pos + 1..pos + 9)?.try_into().ok()?), 9)),
            n => Some((n as u64, 1)),
        }
    }
    let mut maps = Vec::new();
    let mut pos = 5;
    let mut cur = RawMap { pairs: Vec::new(), sep_pos: 0 };
    while pos < b.len() {
        let start = pos;
        let (klen, w) = rv(b, pos)?;
        pos += w;
        if klen == 0 {
            cur.sep_pos = start;
            maps.push(std::mem::replace(&mut cur, RawMap { pairs: Vec::new(), sep_pos: 0 }));
            continue;
        }
        let key = b.get(pos..pos + klen as usize)?;
        pos += klen as usize;
        let (vlen, w) = rv(b, pos)?;
        pos += w;
        b.get(pos..pos + vlen as usize)?;
        pos += vlen as usize;
        cur.pairs.push(RawPair { start, end: pos, key_type: key[0], key_data: key[1..].to_vec() });
    }
    Some(maps)
}

fn is_pset_prop(pair: &RawPair, subtype: u8) -> bool {
    // key data of a proprietary key: <varint prefix len><prefix><subtype><key>
    pair.key_type == 0xFC && pair.key_data.len() >= 6 && pair.key_data[0] == 4 && &pair.key_data[1..5] == b"pset" && pair.key_data[5] == subtype
}

/// A well-framed structural change that is NOT forbidden as such (no rejection is demanded, only totality and the
/// fixpoint of whatever is accepted): one pair's VALUE is resized (cut to 0..3 bytes, one byte shorter or longer, or
/// padded to a typical field width) with its length prefix rewritten to match, so the per-type value codecs meet
/// values of the wrong size behind a correct frame.
pub fn pset_resize_value(p: &mut Prng, reference: &[u8]) -> Option<Delivery> {
    let maps = parse_maps(reference)?;
    let all: Vec<&RawPair> = maps.iter().flat_map(|m| m.pairs.iter()).collect();
    if all.is_empty() {
        return None;
    }
    let pr = *p.pick(&all);
    // <keylen varint><key type><key data><vallen varint><value>
    let klen = 1 + pr.key_data.len();
    let vpos = pr.start + medium::varint_len(klen as u64) + klen;
    let (old_len, w) = match *reference.get(vpos)? {
        0xFD => (u16::from_le_bytes(reference.get(vpos + 1..vpos + 3)?.try_into().ok()?) as usize, 3),
        0xFE => (u32::from_le_bytes(reference.get(vpos + 1..vpos + 5)?.try_into().ok()?) as usize, 5),
        0xFF => return None,
        n => (n as usize, 1),
    };
    if vpos + w + old_len != pr.end {
        return None;
    }
    let new_len = match p.below(8) {
        0 => 0,
        1 => p.usize_below(4),
        2 => old_len.saturating_sub(1),
        3 => old_len + 1,
        4 => *p.pick(&[4usize, 8, 32, 33, 64, 65, 78]),
        5 => old_len / 2,
        6 => old_len + 4,
        _ => old_len.saturating_sub(4),
    };
    if new_len == old_len {
        return None;
    }
    let mut val = reference[vpos + w..pr.end].to_vec();
    val.truncate(new_len);
    while val.len() < new_len {
        val.push(p.u8());
    }
    let mut ins = medium::varint_bytes(new_len as u64);
    ins.extend(val);
    Some(vec![Edit { label: "resize_value".into(), pos: vpos, remove: pr.end - vpos, insert: ins }])
}

/// One forbidden re-framing of a valid PSET encoding; the decoder must answer Err.
pub fn pset_byzantine(p: &mut Prng, reference: &[u8]) -> Option<Delivery> {
    let maps = parse_maps(reference)?;
    if maps.is_empty() {
        return None;
    }
    let global = &maps[0];
    let find = |m: &RawMap, t: u8| m.pairs.iter().find(|x| x.key_type == t).map(|x| (x.start, x.end));
    let n_in = {
        let (s, e) = find(global, 0x04)?;
        // value is a varint after <01><04><len>
        let v = &reference[s + 3..e];
        match v.first()? {
            0xFD => u16::from_le_bytes(v.get(1..3)?.try_into().ok()?) as usize,
            0xFE | 0xFF => return None,
            n => *n as usize,
        }
    };
    let choice = p.below(9);
    match choice {
        0 => {
            // a pair emitted twice (duplicate key)
            let m = p.pick(&maps);
            if m.pairs.is_empty() {
                return None;
            }
            let pr = p.pick(&m.pairs);
            // the copy lands right after the original, or after any later pair of the same map
            let later: Vec<usize> = m.pairs.iter().filter(|x| x.end >= pr.end).map(|x| x.end).collect();
            let at = if p.coin() { pr.end } else { *p.pick(&later) };
            Some(vec![Edit { label: "byz.dupkey".into(), pos: at, remove: 0, insert: reference[pr.start..pr.end].to_vec() }])
        }
        1 => {
            // a mandatory global pair dropped
            let t = *p.pick(&[0x02u8, 0x04, 0x05, 0xFB]);
            let (s, e) = find(global, t)?;
            Some(vec![Edit { label: "byz.missing".into(), pos: s, remove: e - s, insert: vec![] }])
        }
        2 => {
            // a mandatory input pair dropped (previous txid / index)
            if n_in == 0 || maps.len() < 2 {
                return None;
            }
            let m = &maps[1 + p.usize_below(n_in.min(maps.len() - 1))];
            let (s, e) = find(m, *p.pick(&[0x0eu8, 0x0f]))?;
            Some(vec![Edit { label: "byz.missing".into(), pos: s, remove: e - s, insert: vec![] }])
        }
        3 => {
            // a mandatory output pair dropped: script, or both amount forms, or both asset forms, or the blinder index of a keyed output
            if maps.len() <= 1 + n_in {
                return None;
            }
            let m = &maps[1 + n_in + p.usize_below(maps.len() - 1 - n_in)];
            match p.below(5) {
                4 => {
                    // an output that is marked for blinding and fully blinded loses ONE piece of its blinding data: the
                    // format admits blinding data absent or complete, nothing in between
                    let has = |st: u8| m.pairs.iter().any(|x| is_pset_prop(x, st));
                    if !(has(0x06) && [0x01u8, 0x03, 0x04, 0x05, 0x07].iter().all(|st| has(*st))) {
                        return None;
                    }
                    let st = *p.pick(&[0x01u8, 0x03, 0x04, 0x05, 0x07]);
                    if p.coin() {
                        // ... or all but one: every single item alone is "partially blinded" too
                        let mut edits: Vec<Edit> = m.pairs.iter().filter(|x| [0x01u8, 0x03, 0x04, 0x05, 0x07].iter().any(|o| *o != st && is_pset_prop(x, *o))).map(|x| Edit { label: "byz.missing".into(), pos: x.start, remove: x.end - x.start, insert: vec![] }).collect();
                        edits.sort_by(|a, b| b.pos.cmp(&a.pos));
                        // the explicit amount / asset forms stay, so the output is still complete as an unblinded one
                        let has_explicit = m.pairs.iter().any(|x| x.key_type == 0x03) && m.pairs.iter().any(|x| is_pset_prop(x, 0x02));
                        if has_explicit || st == 0x01 || st == 0x03 {
                            return Some(edits);
                        }
                    }
                    let pr = m.pairs.iter().find(|x| is_pset_prop(x, st))?;
                    Some(vec![Edit { label: "byz.missing".into(), pos: pr.start, remove: pr.end - pr.start, insert: vec![] }])
                }
                0 => {
                    let (s, e) = find(m, 0x04)?;
                    Some(vec![Edit { label: "byz.missing".into(), pos: s, remove: e - s, insert: vec![] }])
                }
                1 => {
                    let mut edits = Vec::new();
                    for pr in &m.pairs {
                        if pr.key_type == 0x03 || is_pset_prop(pr, 0x01) {
                            edits.push(Edit { label: "byz.missing".into(), pos: pr.start, remove: pr.end - pr.start, insert: vec![] });
                        }
                    }
                    edits.sort_by(|a, b| b.pos.cmp(&a.pos));
                    if edits.is_empty() {
                        None
                    } else {
                        Some(edits)
                    }
                }
                2 => {
                    let mut edits = Vec::new();
                    for pr in &m.pairs {
                        if is_pset_prop(pr, 0x02) || is_pset_prop(pr, 0x03) {
                            edits.push(Edit { label: "byz.missing".into(), pos: pr.start, remove: pr.end - pr.start, insert: vec![] });
                        }
                    }
                    edits.sort_by(|a, b| b.pos.cmp(&a.pos));
                    if edits.is_empty() {
                        None
                    } else {
                        Some(edits)
                    }
                }
                _ => {
                    if !m.pairs.iter().any(|x| is_pset_prop(x, 0x06)) {
                        return None;
                    }
                    let pr = m.pairs.iter().find(|x| is_pset_prop(x, 0x08))?;
                    Some(vec![Edit { label: "byz.missing".into(), pos: pr.start, remove: pr.end - pr.start, insert: vec![] }])
                }
            }
        }
        4 if p.chance(1, 3) => {
            // declared counts far beyond the 10 000-map cap, singly or together (their sum may wrap)
            let huge = [10_001u64, 20_000, 1 << 32, 1 << 63, u64::MAX, u64::MAX - 1, (1 << 63) + 1];
            let both = p.coin();
            let mut edits = Vec::new();
            for t in [0x04u8, 0x05] {
                if !both && p.coin() && !edits.is_empty() {
                    continue;
                }
                let (s, e) = find(global, t)?;
                let v = *p.pick(&huge);
                let vb = medium::varint_bytes(v);
                let mut pair = vec![1u8, t, vb.len() as u8];
                pair.extend(vb);
                edits.push(Edit { label: "byz.count".into(), pos: s, remove: e - s, insert: pair });
                if !both {
                    break;
                }
            }
            Some(edits)
        }
        4 => {
            // declared input or output count off by one
            let t = *p.pick(&[0x04u8, 0x05]);
            let (s, e) = find(global, t)?;
            let v = &reference[s + 3..e];
            if v.len() != 1 {
                return None;
            }
            let nv = if p.coin() || v[0] == 0 { v[0] + 1 } else { v[0] - 1 };
            Some(vec![Edit { label: "byz.count".into(), pos: s + 3, remove: 1, insert: vec![nv] }])
        }
        5 => {
            // PSET version != 2
            let (s, e) = find(global, 0xFB)?;
            if e - s != 3 + 4 {
                return None;
            }
            let v = *p.pick(&[0u32, 1, 3, 0xffff_ffff]);
            Some(vec![Edit { label: "byz.version".into(), pos: s + 3, remove: 4, insert: v.to_le_bytes().to_vec() }])
        }
        6 => {
            // a hash preimage whose hash differs from its key
            for m in maps.iter().skip(1).take(n_in) {
                for pr in &m.pairs {
                    if (0x0a..=0x0d).contains(&pr.key_type) && pr.end - pr.start > 4 {
                        // flip one bit of the hash in the key
                        let pos = pr.start + 2;
                        return Some(vec![Edit { label: "byz.preimage".into(), pos, remove: 1, insert: vec![reference[pos] ^ 1] }]);
                    }
                }
            }
            None
        }
        7 => {
            // key data attached to a recognised type that takes none
            let mi = p.usize_below(maps.len());
            let m = &maps[mi];
            let recognised: &[u8] = if mi == 0 {
                &[0x02, 0x03, 0x04, 0x05, 0x06, 0xFB]
            } else if mi <= n_in {
                &[0x00, 0x01, 0x03, 0x04, 0x05, 0x07, 0x08, 0x0e, 0x0f, 0x10, 0x11, 0x12, 0x13, 0x17, 0x18]
            } else {
                &[0x00, 0x01, 0x03, 0x04, 0x05, 0x06]
            };
            let cands: Vec<&RawPair> = m.pairs.iter().filter(|x| x.key_data.is_empty() && recognised.contains(&x.key_type)).collect();
            if cands.is_empty() {
                return None;
            }
            let pr = p.pick(&cands);
            Some(vec![Edit { label: "byz.keydata".into(), pos: pr.start, remove: 2, insert: vec![2, pr.key_type, 0x00] }])
        }
        _ => {
            // wrong magic / separator
            let pos = p.usize_below(5);
            Some(vec![Edit { label: "byz.magic".into(), pos, remove: 1, insert: vec![reference[pos] ^ 0x20] }])
        }
    }
    .map(|mut d: Delivery| {
        d.sort_by(|a, b| b.pos.cmp(&a.pos));
        d
    })
}

#[allow(dead_code)]
pub fn unused(_: &LockTime, _: &Script, _: &SchnorrSighashType, _: &medium::Seg) {}
