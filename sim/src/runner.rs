//! World trait, parallel deterministic runner, minimiser.

use crate::ctx::{Aggregate, Ctx, Violation};
use crate::prng::Prng;
use serde::{de::DeserializeOwned, Serialize};
use serde_json::Value;
use std::os::unix::fs::FileExt;
use std::sync::atomic::{AtomicU64, Ordering};
use std::sync::Mutex;

pub trait World: Sync {
    type Case: Serialize + DeserializeOwned + Clone + Send;
    fn name(&self) -> &'static str;
    /// draw a complete, explicit case (workload spec + operations + faults) for this run
    fn generate(&self, p: &mut Prng, scenario: &str, run: u64) -> Self::Case;
    /// execute an explicit case; no PRNG other than what the case itself carries
    fn execute(&self, case: &Self::Case, ctx: &mut Ctx);
    /// simpler variants of a failing case, most aggressive first
    fn shrink(&self, _case: &Self::Case, _v: &Violation) -> Vec<Self::Case> {
        Vec::new()
    }
    /// a compact human-readable description used for evidence samples
    fn describe(&self, case: &Self::Case) -> Value {
        serde_json::to_value(case).unwrap_or(Value::Null)
    }
}

pub trait DynWorld: Sync {
    fn name(&self) -> &'static str;
    fn run_one(&self, seed: u64, scenario: &str, run: u64, ctx: &mut Ctx);
    fn case_json(&self, seed: u64, scenario: &str, run: u64) -> Value;
    fn describe_json(&self, seed: u64, scenario: &str, run: u64) -> Value;
    fn exec_json(&self, case: &Value, ctx: &mut Ctx) -> Result<(), String>;
    /// returns (minimised case, violation as observed on it, number of candidate executions)
    fn minimise(&self, case: &Value, target: &Violation, budget_execs: usize) -> Result<(Value, Violation, usize), String>;
}

fn same_class(a: &Violation, b: &Violation) -> bool {
    a.invariant == b.invariant && a.key == b.key
}

impl<W: World> DynWorld for W {
    fn name(&self) -> &'static str {
        World::name(self)
    }
    fn run_one(&self, seed: u64, scenario: &str, run: u64, ctx: &mut Ctx) {
        let mut p = Prng::for_run(seed, World::name(self), scenario, run);
        let case = self.generate(&mut p, scenario, run);
        self.execute(&case, ctx);
    }
    fn case_json(&self, seed: u64, scenario: &str, run: u64) -> Value {
        let mut p = Prng::for_run(seed, World::name(self), scenario, run);
        serde_json::to_value(self.generate(&mut p, scenario, run)).expect("case serialises")
    }
    fn describe_json(&self, seed: u64, scenario: &str, run: u64) -> Value {
        let mut p = Prng::for_run(seed, World::name(self), scenario, run);
        let c = self.generate(&mut p, scenario, run);
        self.describe(&c)
    }
    fn exec_json(&self, case: &Value, ctx: &mut Ctx) -> Result<(), String> {
        let c: W::Case = serde_json::from_value(case.clone()).map_err(|e| format!("malformed case: {}", e))?;
        self.execute(&c, ctx);
        Ok(())
    }
    fn minimise(&self, case: &Value, target: &Violation, budget_execs: usize) -> Result<(Value, Violation, usize), String> {
        let mut cur: W::Case = serde_json::from_value(case.clone()).map_err(|e| format!("malformed case: {}", e))?;
        let mut cur_v = target.clone();
        let mut execs = 0usize;
        'outer: loop {
            let cands = self.shrink(&cur, &cur_v);
            for c in cands {
                if execs >= budget_execs {
                    break 'outer;
                }
                execs += 1;
                let mut ctx = Ctx::new(false);
                self.execute(&c, &mut ctx);
                if let Some(v) = ctx.violations.iter().find(|v| same_class(v, target)) {
                    cur = c;
                    cur_v = v.clone();
                    continue 'outer;
                }
            }
            break;
        }
        Ok((serde_json::to_value(&cur).expect("case serialises"), cur_v, execs))
    }
}

pub struct Unit {
    pub world: &'static dyn DynWorld,
    pub scenario: &'static str,
    pub quick: u64,
    pub thorough: u64,
}

pub struct Found {
    pub world: &'static str,
    pub scenario: &'static str,
    /// lowest run index at which this class (invariant, key) was violated
    pub run: u64,
    pub v: Violation,
    /// number of violations of this class in the unit
    pub count: u64,
}

/// violations are kept per class (invariant, key): count + the instance with the lowest run index, so a badly
/// broken tree cannot exhaust memory and the reported instance does not depend on thread timing
fn add_found(map: &mut std::collections::BTreeMap<(String, String), Found>, f: Found) {
    let k = (f.v.invariant.clone(), f.v.key.clone());
    match map.get_mut(&k) {
        Some(old) => {
            old.count += f.count;
            if (f.run, f.v.step) < (old.run, old.v.step) {
                let c = old.count;
                *old = f;
                old.count = c;
            }
        }
        None => {
            map.insert(k, f);
        }
    }
}

#[derive(Default)]
pub struct UnitResult {
    pub agg: Aggregate,
    pub found: Vec<Found>,
    pub loghash: u64,
}

/// Slot file: each worker records the run it is about to execute, so that a process death
/// (abort, stack overflow, crash in the C library) can be localised by the supervisor.
pub struct Slots {
    file: Option<std::fs::File>,
}
impl Slots {
    pub fn open(path: Option<&str>) -> Slots {
        Slots { file: path.and_then(|p| std::fs::OpenOptions::new().create(true).write(true).truncate(true).open(p).ok()) }
    }
    #[inline]
    fn mark(&self, worker: usize, unit_idx: u64, run: u64) {
        if let Some(f) = &self.file {
            let mut b = [0u8; 24];
            b[0..8].copy_from_slice(&1u64.to_le_bytes());
            b[8..16].copy_from_slice(&unit_idx.to_le_bytes());
            b[16..24].copy_from_slice(&run.to_le_bytes());
            let _ = f.write_at(&b, (worker * 24) as u64);
        }
    }
    fn clear(&self, worker: usize) {
        if let Some(f) = &self.file {
            let _ = f.write_at(&[0u8; 24], (worker * 24) as u64);
        }
    }
}

pub fn run_unit(unit: &Unit, unit_idx: u64, seed: u64, runs: u64, workers: usize, focus: &str, slots: &Slots) -> UnitResult {
    let next = AtomicU64::new(0);
    let merged: Mutex<(Aggregate, std::collections::BTreeMap<(String, String), Found>, Vec<(u64, u64)>)> = Mutex::new((Aggregate::default(), Default::default(), Vec::new()));
    const CHUNK: u64 = 8;
    std::thread::scope(|s| {
        for w in 0..workers {
            let next = &next;
            let merged = &merged;
            s.spawn(move || {
                let mut agg = Aggregate::default();
                let mut found: std::collections::BTreeMap<(String, String), Found> = Default::default();
                let mut hashes: Vec<(u64, u64)> = Vec::new();
                loop {
                    let start = next.fetch_add(CHUNK, Ordering::Relaxed);
                    if start >= runs {
                        break;
                    }
                    for run in start..(start + CHUNK).min(runs) {
                        slots.mark(w, unit_idx, run);
                        let mut ctx = Ctx::new(false);
                        ctx.focus = focus.to_string();
                        let r = crate::ctx::guard(|| unit.world.run_one(seed, unit.scenario, run, &mut ctx));
                        if let Err(msg) = r {
                            // a panic that escaped every guarded call: harness bug or a library panic
                            // in an unguarded helper; surfaced as a harness error, never as a VIOLATION
                            ctx.violations.push(Violation {
                                invariant: "HARNESS.panic".into(),
                                key: crate::ctx::panic_key(&msg),
                                detail: msg,
                                step: ctx.steps,
                            });
                        }
                        agg.evaluations += 1;
                        agg.steps += ctx.steps;
                        if ctx.nontrivial {
                            agg.nontrivial_runs += 1;
                            agg.signatures.insert(ctx.signature());
                        }
                        agg.stats.merge(&ctx.stats);
                        hashes.push((run, ctx.loghash));
                        for v in ctx.violations {
                            add_found(&mut found, Found { world: unit.world.name(), scenario: unit.scenario, run, v, count: 1 });
                        }
                    }
                }
                slots.clear(w);
                let mut m = merged.lock().unwrap();
                m.0.evaluations += agg.evaluations;
                m.0.steps += agg.steps;
                m.0.nontrivial_runs += agg.nontrivial_runs;
                m.0.stats.merge(&agg.stats);
                m.0.signatures.extend(agg.signatures.iter().copied());
                for (_, f) in found {
                    add_found(&mut m.1, f);
                }
                m.2.extend(hashes);
            });
        }
    });
    let (agg, found, mut hashes) = merged.into_inner().unwrap();
    let mut found: Vec<Found> = found.into_values().collect();
    found.sort_by(|a, b| (a.run, &a.v.invariant, a.v.step).cmp(&(b.run, &b.v.invariant, b.v.step)));
    hashes.sort();
    let mut h = 0xcbf2_9ce4_8422_2325u64;
    for (r, x) in hashes {
        h ^= r.wrapping_mul(0x9E37_79B9_7F4A_7C15) ^ x;
        h = h.wrapping_mul(0x0000_0100_0000_01b3);
    }
    UnitResult { agg, found, loghash: h }
}
