//! Per-run context: event log, signature, counters, violations, guarded library calls.

use crate::seams::{self, IoCounts};
use serde::{Deserialize, Serialize};
use std::cell::RefCell;
use std::collections::{BTreeMap, BTreeSet};
use std::panic::{catch_unwind, AssertUnwindSafe};

#[derive(Clone, Debug, Serialize, Deserialize, PartialEq, Eq)]
pub struct Violation {
    /// stable invariant id from DESIGN appendix A, e.g. "C01.write.len"
    pub invariant: String,
    /// stable discriminator used by known-finding matchers (class of the failure, not its instance)
    pub key: String,
    /// human-readable: expected vs observed
    pub detail: String,
    /// logical step (event sequence number) at which the invariant failed
    pub step: u64,
}

impl Violation {
    pub fn property(&self) -> &str {
        self.invariant.split('.').next().unwrap_or("")
    }
}

#[derive(Default, Clone, Debug)]
pub struct Stats {
    pub counters: BTreeMap<String, u64>,
}
impl Stats {
    #[inline]
    pub fn add(&mut self, k: &str, n: u64) {
        if n == 0 {
            return;
        }
        if let Some(v) = self.counters.get_mut(k) {
            *v += n;
        } else {
            self.counters.insert(k.to_string(), n);
        }
    }
    /// counters named `max.*` keep the maximum instead of the sum
    pub fn max(&mut self, k: &str, n: u64) {
        let e = self.counters.entry(k.to_string()).or_insert(0);
        if n > *e {
            *e = n;
        }
    }
    pub fn merge(&mut self, o: &Stats) {
        for (k, v) in &o.counters {
            if k.starts_with("max.") {
                self.max(k, *v);
            } else {
                self.add(k, *v);
            }
        }
    }
}

thread_local! {
    static LAST_PANIC: RefCell<Option<String>> = const { RefCell::new(None) };
}

pub fn install_panic_hook() {
    std::panic::set_hook(Box::new(|info| {
        let loc = info.location().map(|l| format!("{}:{}", l.file(), l.line())).unwrap_or_default();
        let msg = if let Some(s) = info.payload().downcast_ref::<&str>() {
            s.to_string()
        } else if let Some(s) = info.payload().downcast_ref::<String>() {
            s.clone()
        } else {
            "<non-string panic>".to_string()
        };
        LAST_PANIC.with(|p| *p.borrow_mut() = Some(format!("{} @ {}", msg, loc)));
    }));
}

/// catch a panic from library code; returns the panic message and location on failure
pub fn guard<T>(f: impl FnOnce() -> T) -> Result<T, String> {
    match catch_unwind(AssertUnwindSafe(f)) {
        Ok(v) => Ok(v),
        Err(_) => Err(LAST_PANIC.with(|p| p.borrow_mut().take()).unwrap_or_else(|| "<panic>".into())),
    }
}

/// strip the instance-specific parts of a panic message so it can serve as a stable key
pub fn panic_key(msg: &str) -> String {
    // "index out of bounds: the len is 3 but the index is 7 @ /repo/src/x.rs:12" -> file + message skeleton
    let (m, loc) = match msg.rsplit_once(" @ ") {
        Some((m, l)) => (m, l),
        None => (msg, ""),
    };
    let file = loc.rsplit_once(':').map(|(f, _)| f).unwrap_or(loc);
    let file = file.rsplit("/src/").next().unwrap_or(file);
    let skeleton: String = m.chars().map(|c| if c.is_ascii_digit() { '#' } else { c }).collect();
    let mut sk = String::new();
    let mut last_hash = false;
    for c in skeleton.chars() {
        if c == '#' {
            if !last_hash {
                sk.push('#');
            }
            last_hash = true;
        } else {
            sk.push(c);
            last_hash = false;
        }
    }
    let sk: String = sk.chars().take(80).collect();
    format!("{}|{}", file, sk)
}

pub const ALLOC_BASE_BUDGET: usize = 64 << 20;
pub const ALLOC_PER_INPUT_BYTE: usize = 32;

pub struct Ctx {
    pub stats: Stats,
    pub log: Option<Vec<String>>,
    pub loghash: u64,
    sig: u64,
    pub nontrivial: bool,
    pub steps: u64,
    pub violations: Vec<Violation>,
    /// properties whose invariants this execution is being asked about ("" = all)
    pub focus: String,
}

impl Ctx {
    pub fn new(logging: bool) -> Ctx {
        Ctx {
            stats: Stats::default(),
            log: if logging { Some(Vec::new()) } else { None },
            loghash: 0xcbf2_9ce4_8422_2325,
            sig: 0xcbf2_9ce4_8422_2325,
            nontrivial: false,
            steps: 0,
            violations: Vec::new(),
            focus: String::new(),
        }
    }
    #[inline]
    fn fold(h: &mut u64, s: &[u8]) {
        for b in s {
            *h ^= *b as u64;
            *h = h.wrapping_mul(0x0000_0100_0000_01b3);
        }
        *h ^= 0xff;
        *h = h.wrapping_mul(0x0000_0100_0000_01b3);
    }
    /// one logical step: an event of the run (always folded into the log hash)
    #[inline]
    pub fn ev(&mut self, tag: &str, a: u64) {
        self.steps += 1;
        Self::fold(&mut self.loghash, tag.as_bytes());
        Self::fold(&mut self.loghash, &a.to_le_bytes());
        if let Some(l) = &mut self.log {
            l.push(format!("{} {} {:#x}", self.steps, tag, a));
        }
    }
    pub fn ev_bytes(&mut self, tag: &str, b: &[u8]) {
        self.steps += 1;
        Self::fold(&mut self.loghash, tag.as_bytes());
        Self::fold(&mut self.loghash, b);
        if let Some(l) = &mut self.log {
            l.push(format!("{} {} len={} fnv={:#x}", self.steps, tag, b.len(), crate::prng::fnv(b)));
        }
    }
    /// coarse class token: contributes to the run signature used for distinct_nontrivial
    #[inline]
    pub fn sig(&mut self, tok: &str) {
        Self::fold(&mut self.sig, tok.as_bytes());
    }
    #[inline]
    pub fn sig_n(&mut self, tok: &str, n: u64) {
        Self::fold(&mut self.sig, tok.as_bytes());
        Self::fold(&mut self.sig, &n.to_le_bytes());
    }
    pub fn signature(&self) -> u64 {
        self.sig
    }
    #[inline]
    pub fn fault(&mut self, kind: &str, n: u64) {
        if n > 0 {
            self.nontrivial = true;
            self.stats.add(&format!("fault.{}", kind), n);
            self.sig(kind);
        }
    }
    #[inline]
    pub fn probe(&mut self, name: &str) {
        self.stats.add(&format!("probe.{}", name), 1);
    }
    pub fn io_counts(&mut self, side: &str, c: &IoCounts) {
        self.fault(&format!("short_{}", side), c.short);
        self.fault(&format!("eintr_{}", side), c.eintr);
        self.fault(&format!("hard_{}", side), c.hard);
        self.fault(&format!("zero_{}", side), c.zero);
        self.stats.add(&format!("io.{}_calls", side), c.calls);
    }
    pub fn violate(&mut self, invariant: &str, key: &str, detail: String) {
        self.ev("VIOLATION", crate::prng::fnv(invariant.as_bytes()));
        if self.violations.len() < 8 {
            self.violations.push(Violation { invariant: invariant.to_string(), key: key.to_string(), detail, step: self.steps });
        }
    }
    /// invariant check helper
    #[inline]
    pub fn check(&mut self, ok: bool, invariant: &str, key: &str, detail: impl FnOnce() -> String) -> bool {
        self.stats.add(&format!("checked.{}", invariant), 1);
        if !ok {
            self.violate(invariant, key, detail());
        }
        ok
    }
    /// A library call on the fallible public surface: must not panic and must not allocate out of
    /// proportion to `input_len`. Returns None if it panicked (already recorded under C10).
    pub fn call<T>(&mut self, name: &str, input_len: usize, f: impl FnOnce() -> T) -> Option<T> {
        self.steps += 1;
        self.stats.add("lib_calls", 1);
        let (r, rep) = seams::measure(|| guard(f));
        let budget = ALLOC_BASE_BUDGET + ALLOC_PER_INPUT_BYTE * input_len;
        if rep.peak > budget {
            self.violate(
                "C10.alloc",
                name,
                format!("{}: peak {} bytes (largest single request {}) for input of {} bytes exceeds budget {}", name, rep.peak, rep.largest, input_len, budget),
            );
        }
        self.stats.max("max.alloc_peak_bytes", rep.peak as u64);
        match r {
            Ok(v) => Some(v),
            Err(msg) => {
                self.probe("panic_seen");
                self.violate("C10.panic", &format!("{}|{}", name, panic_key(&msg)), format!("{} panicked: {}", name, msg));
                None
            }
        }
    }
    /// Same, for a documented-panic-excluded or non-C10 helper call: just guard, no C10 attribution
    pub fn quiet<T>(&mut self, f: impl FnOnce() -> T) -> Result<T, String> {
        guard(f)
    }
}

/// merged over all runs of a check
#[derive(Default)]
pub struct Aggregate {
    pub stats: Stats,
    pub signatures: BTreeSet<u64>,
    pub evaluations: u64,
    pub steps: u64,
    pub nontrivial_runs: u64,
}
