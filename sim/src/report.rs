//! Check driver: runs the units serving a property, triages violations against the committed
//! known-findings file, minimises, writes replay files and the evidence file.

use crate::ctx::{Aggregate, Ctx, Violation};
use crate::runner::{run_unit, DynWorld, Found, Slots, Unit};
use serde_json::{json, Value};
use std::collections::BTreeMap;
use std::time::Instant;

pub fn verif_root() -> String {
    std::env::var("VERIF_ROOT").unwrap_or_else(|_| "/verif".to_string())
}

pub struct PropertySpec {
    pub id: &'static str,
    pub level: &'static str,
    pub rule: &'static str,
    pub assumptions: &'static [&'static str],
    pub real_code: &'static str,
    pub stubs: &'static str,
    pub units: Vec<Unit>,
}

#[derive(Clone, Debug)]
pub struct KnownFinding {
    pub property: String,
    pub invariant: String,
    pub key: String,
    pub status: String,
    pub summary: String,
}

pub fn load_known_findings() -> Result<Vec<KnownFinding>, String> {
    let path = format!("{}/known_findings.json", verif_root());
    let txt = match std::fs::read_to_string(&path) {
        Ok(t) => t,
        Err(_) => return Ok(Vec::new()),
    };
    let v: Value = serde_json::from_str(&txt).map_err(|e| format!("{}: {}", path, e))?;
    let mut out = Vec::new();
    for e in v.get("findings").and_then(|f| f.as_array()).cloned().unwrap_or_default() {
        let g = |k: &str| e.get(k).and_then(|x| x.as_str()).unwrap_or("").to_string();
        out.push(KnownFinding { property: g("property"), invariant: g("invariant"), key: g("key"), status: g("status"), summary: g("summary") });
    }
    Ok(out)
}

fn matches_open(kf: &[KnownFinding], v: &Violation) -> Option<KnownFinding> {
    kf.iter().find(|k| k.status == "open" && k.property == v.property() && k.invariant == v.invariant && k.key == v.key).cloned()
}

pub fn world_by_name(name: &str) -> Option<&'static dyn DynWorld> {
    crate::registry::all_worlds().into_iter().find(|w| w.name() == name)
}

pub struct CheckOpts {
    pub tier: String,
    pub seed: u64,
    pub workers: usize,
    pub scale: f64,
    pub slots_path: Option<String>,
    pub write_evidence: bool,
    /// development aid for the seeded-change matrix: stop after the first unit in which this property is violated and
    /// minimise with a small budget (the answer wanted is only "detected, by which invariant")
    pub fast_fail: bool,
}

/// returns process exit code
pub fn run_check(spec: &PropertySpec, opts: &CheckOpts) -> i32 {
    let t0 = Instant::now();
    println!("VERIF_SEED={} property={} tier={} workers={}", opts.seed, spec.id, opts.tier, opts.workers);
    let kf = match load_known_findings() {
        Ok(k) => k,
        Err(e) => {
            eprintln!("HARNESS-ERROR: {}", e);
            return 2;
        }
    };
    let slots = Slots::open(opts.slots_path.as_deref());
    let mut total = Aggregate::default();
    let mut found: Vec<Found> = Vec::new();
    let mut unit_reports = Vec::new();
    let mut samples: Vec<Value> = Vec::new();
    for (ui, u) in spec.units.iter().enumerate() {
        let base = if opts.tier == "thorough" { u.thorough } else { u.quick };
        let runs = ((base as f64 * opts.scale).ceil() as u64).max(1);
        let tu = Instant::now();
        let r = run_unit(u, ui as u64, opts.seed, runs, opts.workers, spec.id, &slots);
        let wall = tu.elapsed().as_secs_f64();
        println!(
            "  unit world={} scenario={} runs={} steps={} nontrivial_runs={} distinct_signatures={} wall={:.1}s loghash={:016x}",
            u.world.name(),
            u.scenario,
            runs,
            r.agg.steps,
            r.agg.nontrivial_runs,
            r.agg.signatures.len(),
            wall,
            r.loghash
        );
        unit_reports.push(json!({
            "world": u.world.name(), "scenario": u.scenario, "runs": runs, "logical_steps": r.agg.steps,
            "nontrivial_runs": r.agg.nontrivial_runs, "distinct_signatures": r.agg.signatures.len(),
            "wall_s": wall, "loghash": format!("{:016x}", r.loghash),
        }));
        if samples.len() < 6 {
            for k in 0..2u64.min(runs) {
                samples.push(json!({"world": u.world.name(), "scenario": u.scenario, "run": k, "case": u.world.describe_json(opts.seed, u.scenario, k)}));
            }
        }
        total.evaluations += r.agg.evaluations;
        total.steps += r.agg.steps;
        total.nontrivial_runs += r.agg.nontrivial_runs;
        total.stats.merge(&r.agg.stats);
        // signatures of different units are different cases even if the hash collides: salt by unit
        for s in r.agg.signatures {
            total.signatures.insert(s ^ (ui as u64).wrapping_mul(0x9E37_79B9_7F4A_7C15));
        }
        let mine_here = r.found.iter().any(|f| f.v.property() == spec.id && matches_open(&kf, &f.v).is_none());
        found.extend(r.found);
        if opts.fast_fail && mine_here {
            break;
        }
    }

    // ---- triage
    let mut harness_errors = 0;
    let mut mine: BTreeMap<(String, String), Vec<&Found>> = BTreeMap::new();
    let mut others: BTreeMap<String, u64> = BTreeMap::new();
    for f in &found {
        if f.v.invariant.starts_with("HARNESS") {
            harness_errors += 1;
            eprintln!("HARNESS-ERROR: world={} scenario={} run={} {}", f.world, f.scenario, f.run, f.v.detail);
        } else if f.v.property() == spec.id {
            mine.entry((f.v.invariant.clone(), f.v.key.clone())).or_default().push(f);
        } else {
            *others.entry(f.v.invariant.clone()).or_default() += f.count;
        }
    }
    if !others.is_empty() {
        println!("  note: events attributed to other properties during these runs (decided by their own checks): {:?}", others);
    }
    let mut n_violations = 0;
    let mut n_known = 0;
    let mut violation_reports = Vec::new();
    let mut class_no = 0;
    for ((inv, key), fs) in &mine {
        let first = fs[0];
        if let Some(k) = matches_open(&kf, &first.v) {
            n_known += 1;
            println!("KNOWN-FINDING: property={} {} [{} key={} occurrences={}]", spec.id, k.summary, inv, key, fs.iter().map(|f| f.count).sum::<u64>());
            continue;
        }
        n_violations += 1;
        class_no += 1;
        let world = world_by_name(first.world).expect("world");
        let case = world.case_json(opts.seed, first.scenario, first.run);
        let (min_case, min_v, execs, minimised) = if class_no <= (if opts.fast_fail { 1 } else { 6 }) {
            match world.minimise(&case, &first.v, if opts.fast_fail { 30 } else { 400 }) {
                Ok((c, v, e)) => (c, v, e, true),
                Err(_) => (case.clone(), first.v.clone(), 0, false),
            }
        } else {
            (case.clone(), first.v.clone(), 0, false)
        };
        // verify the (minimised) case fails the same invariant when executed again
        let mut ctx = Ctx::new(true);
        let _ = world.exec_json(&min_case, &mut ctx);
        let reproduced = ctx.violations.iter().any(|v| v.invariant == *inv && v.key == *key);
        let fname = format!("{}/replays/{}-{}-{}-{}-{}.json", verif_root(), spec.id, opts.seed, first.world, first.scenario, first.run);
        let replay = json!({
            "property": spec.id, "invariant": inv, "key": key, "world": first.world, "scenario": first.scenario,
            "seed": opts.seed, "run": first.run, "minimised": minimised, "minimiser_executions": execs,
            "reproduced_in_process": reproduced,
            "detail": min_v.detail, "failing_step": min_v.step,
            "original_detail": first.v.detail,
            "case": min_case,
            "trace": ctx.log.unwrap_or_default(),
        });
        let _ = std::fs::create_dir_all(format!("{}/replays", verif_root()));
        if let Err(e) = std::fs::write(&fname, serde_json::to_string_pretty(&replay).unwrap()) {
            eprintln!("HARNESS-ERROR: cannot write {}: {}", fname, e);
            return 2;
        }
        println!("  violated {} key={} occurrences={} first_run={} : {}", inv, key, fs.iter().map(|f| f.count).sum::<u64>(), first.run, min_v.detail);
        println!("VIOLATION property={} replay={}", spec.id, fname);
        violation_reports.push(json!({"invariant": inv, "key": key, "occurrences": fs.iter().map(|f| f.count).sum::<u64>(), "replay": fname, "detail": min_v.detail}));
    }

    // ---- evidence
    let wall = t0.elapsed().as_secs_f64();
    let mut faults = serde_json::Map::new();
    let mut probes = serde_json::Map::new();
    let mut checked = serde_json::Map::new();
    let mut other_counters = serde_json::Map::new();
    for (k, v) in &total.stats.counters {
        if let Some(r) = k.strip_prefix("fault.") {
            faults.insert(r.to_string(), json!(v));
        } else if let Some(r) = k.strip_prefix("probe.") {
            probes.insert(r.to_string(), json!(v));
        } else if let Some(r) = k.strip_prefix("checked.") {
            checked.insert(r.to_string(), json!(v));
        } else {
            other_counters.insert(k.clone(), json!(v));
        }
    }
    let runs_per_hour = if wall > 0.0 { (total.evaluations as f64 / wall * 3600.0) as u64 } else { 0 };
    let evidence = json!({
        "property_id": spec.id,
        "tier": opts.tier,
        "seed": opts.seed,
        "level": spec.level,
        "coverage": {
            "evaluations": total.evaluations,
            "distinct_nontrivial": total.signatures.len(),
            "rule": spec.rule,
            "samples": samples,
            "exhaustive": false,
            "simulated_runs": total.evaluations,
            "runs_per_hour": runs_per_hour,
            "seeds": 1,
            "simulated_time": format!("{} logical steps (no clock exists in the code under test; time is event sequence numbers)", total.steps),
            "logical_steps": total.steps,
            "nontrivial_runs": total.nontrivial_runs,
            "faults_fired": faults,
            "probes": probes,
            "invariant_evaluations": checked,
            "counters": other_counters,
            "units": unit_reports,
            "real_code": spec.real_code,
            "stubs": spec.stubs,
            "known_findings_matched": n_known,
            "violation_reports": violation_reports,
            "workers": opts.workers,
        },
        "assumptions": spec.assumptions,
        "wall_s": wall,
        "violations": n_violations,
    });
    if opts.write_evidence {
        let path = format!("{}/evidence/{}.json", verif_root(), spec.id);
        let _ = std::fs::create_dir_all(format!("{}/evidence", verif_root()));
        if let Err(e) = std::fs::write(&path, serde_json::to_string_pretty(&evidence).unwrap()) {
            eprintln!("HARNESS-ERROR: cannot write {}: {}", path, e);
            return 2;
        }
    }
    println!(
        "  total runs={} steps={} distinct_nontrivial={} violations={} known={} wall={:.1}s",
        total.evaluations,
        total.steps,
        total.signatures.len(),
        n_violations,
        n_known,
        wall
    );
    if harness_errors > 0 {
        return 2;
    }
    if n_violations > 0 {
        1
    } else {
        0
    }
}

pub fn replay(path: &str) -> i32 {
    let txt = match std::fs::read_to_string(path) {
        Ok(t) => t,
        Err(e) => {
            eprintln!("HARNESS-ERROR: cannot read {}: {}", path, e);
            return 2;
        }
    };
    let v: Value = match serde_json::from_str(&txt) {
        Ok(v) => v,
        Err(e) => {
            eprintln!("HARNESS-ERROR: malformed replay {}: {}", path, e);
            return 2;
        }
    };
    let g = |k: &str| v.get(k).and_then(|x| x.as_str()).unwrap_or("").to_string();
    let (prop, inv, key, world) = (g("property"), g("invariant"), g("key"), g("world"));
    let Some(w) = world_by_name(&world) else {
        eprintln!("HARNESS-ERROR: unknown world {}", world);
        return 2;
    };
    let mut ctx = Ctx::new(true);
    // mark for the supervisor: an abort during replay is the reproduction of a C10.abort
    if let Err(e) = w.exec_json(v.get("case").unwrap_or(&Value::Null), &mut ctx) {
        eprintln!("HARNESS-ERROR: {}", e);
        return 2;
    }
    for l in ctx.log.as_deref().unwrap_or(&[]) {
        println!("  trace: {}", l);
    }
    if let Some(f) = ctx.violations.iter().find(|x| x.invariant == inv && x.key == key) {
        println!("  reproduced {} at step {}: {}", inv, f.step, f.detail);
        println!("VIOLATION property={} replay={}", prop, path);
        1
    } else {
        println!("  did not reproduce {} (key {}); violations seen: {:?}", inv, key, ctx.violations.iter().map(|x| &x.invariant).collect::<Vec<_>>());
        0
    }
}
