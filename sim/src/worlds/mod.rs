pub mod addr;
pub mod codec;
pub mod ct;
pub mod sighash;
