pub mod addr;
