pub mod addr;
pub mod codec;
pub mod sighash;
