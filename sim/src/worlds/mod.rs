pub mod addr;
pub mod sighash;
