pub mod addr;
pub mod codec;
pub mod ct;
pub mod psetflow;
pub mod sighash;
pub mod surface;
