//! World `sighash` (C13): one signer issues a history of queries against one stateful SighashCache,
//! interleaved with witness_mut updates and with signing-data writes into faulty writers.
//! Reference model: a cache created fresh for each query over the current transaction.

use crate::ctx::{guard, Ctx, Violation};
use crate::gen::{self, TxSpec};
use crate::prng::Prng;
use crate::runner::World;
use crate::seams::{HardKind, IoPlan, SimWriter};
use elements::hashes::Hash;
use elements::sighash::{Annex, Prevouts, SighashCache};
use elements::taproot::{LeafVersion, TapLeafHash};
use elements::{BlockHash, EcdsaSighashType, SchnorrSighashType, Script, Transaction, TxOut};
use serde::{Deserialize, Serialize};
use std::ops::Deref;

#[derive(Clone, Debug, Serialize, Deserialize, PartialEq, Eq)]
pub enum Kind {
    Legacy,
    Segwit,
    /// generic taproot_sighash
    Taproot,
    TaprootKeySpend,
    TaprootScriptSpend,
}

#[derive(Clone, Debug, Serialize, Deserialize, PartialEq, Eq)]
pub enum PrevoutForm {
    All,
    One,
    /// All with one element missing (must be PrevoutsSize on both sides)
    AllShort,
    /// One for another index than the queried one (must be PrevoutIndex on both sides, or whatever fresh says)
    OneOther,
}

#[derive(Clone, Debug, Serialize, Deserialize, PartialEq, Eq)]
pub struct Query {
    pub kind: Kind,
    pub idx: usize,
    /// ECDSA: index into the six standard types; Schnorr: index into the seven types
    pub ty: usize,
    pub seed: u64,
    pub prevouts: PrevoutForm,
    pub annex: bool,
    pub leaf: bool,
    /// Some: use the *_encode_signing_data_to form into a SimWriter with this plan
    pub io: Option<IoPlan>,
    /// hard write fault position as a fraction (per 1024) of the reference message length
    pub fault_at_1024: Option<(u32, HardKind)>,
}

#[derive(Clone, Debug, Serialize, Deserialize, PartialEq, Eq)]
pub enum Op {
    Q(Query),
    WitnessPush { idx: usize, seed: u64, len: usize },
}

#[derive(Clone, Debug, Serialize, Deserialize)]
pub struct Case {
    pub tx: TxSpec,
    pub prevout_seed: u64,
    pub ops: Vec<Op>,
}

pub const ECDSA: [u32; 6] = [0x01, 0x02, 0x03, 0x81, 0x82, 0x83];
pub const SCHNORR: [SchnorrSighashType; 8] = [
    SchnorrSighashType::Default,
    SchnorrSighashType::All,
    SchnorrSighashType::None,
    SchnorrSighashType::Single,
    SchnorrSighashType::AllPlusAnyoneCanPay,
    SchnorrSighashType::NonePlusAnyoneCanPay,
    SchnorrSighashType::SinglePlusAnyoneCanPay,
    // a type value the library names but consensus does not define: it carries no ANYONECANPAY flag, so it needs all prevouts
    SchnorrSighashType::Reserved,
];

#[derive(Debug, PartialEq, Eq, Clone)]
pub enum Outcome {
    Digest([u8; 32]),
    Bytes(Vec<u8>),
    Err(String),
    /// error while a write fault was active: only "is an error" is comparable
    ErrUnderFault(String),
    Panic(String),
}

fn short(o: &Outcome) -> String {
    match o {
        Outcome::Digest(d) => format!("Digest({:02x}{:02x}{:02x}{:02x}..)", d[0], d[1], d[2], d[3]),
        Outcome::Bytes(b) => format!("Bytes(len={}, fnv={:x})", b.len(), crate::prng::fnv(b)),
        Outcome::Err(e) => format!("Err({})", e),
        Outcome::ErrUnderFault(e) => format!("ErrUnderFault({})", e),
        Outcome::Panic(m) => format!("Panic({})", m),
    }
}

struct Env<'a> {
    prevouts: &'a [TxOut],
    genesis: BlockHash,
}

/// Execute one query against a cache. `plan`: None = digest API (or perfect Vec writer for encode forms
/// when `force_bytes`), Some = encode form into a SimWriter.
fn run_query<R: Deref<Target = Transaction>>(cache: &mut SighashCache<R>, q: &Query, env: &Env, plan: Option<&IoPlan>, force_bytes: bool, ctx: Option<&mut Ctx>) -> Outcome {
    let mut p = Prng::from_u64(q.seed);
    let script = gen::script(&mut p, 200);
    let value = {
        let k = gen::conf_kind(&mut p, true, true);
        gen::value(&mut p, k)
    };
    let annex_bytes = {
        let mut a = vec![0x50u8];
        let n = p.len_biased(300);
        a.extend(p.bytes(n));
        a
    };
    let leaf_script = gen::script(&mut p, 100);
    let codesep = if p.coin() { 0xffff_ffff } else { p.below(1000) as u32 };
    let leaf_hash = TapLeafHash::from_script(&leaf_script, LeafVersion::default());
    let n = env.prevouts.len();
    let short_prevouts: &[TxOut] = if n > 0 { &env.prevouts[..n - 1] } else { env.prevouts };
    let default_txout = TxOut::default();
    let refs_all: Vec<&TxOut> = env.prevouts.iter().collect();
    let refs_short: Vec<&TxOut> = short_prevouts.iter().collect();
    let prevouts: Prevouts<&TxOut> = match q.prevouts {
        PrevoutForm::All => Prevouts::All(&refs_all),
        PrevoutForm::AllShort => Prevouts::All(&refs_short),
        PrevoutForm::One => Prevouts::One(q.idx, env.prevouts.get(q.idx).unwrap_or(&default_txout)),
        PrevoutForm::OneOther => Prevouts::One(q.idx + 1, env.prevouts.get(q.idx + 1).unwrap_or(&default_txout)),
    };
    let bytes_mode = plan.is_some() || force_bytes;
    let perfect = IoPlan::perfect();
    let mut w = SimWriter::new(plan.unwrap_or(&perfect));
    let faulty = plan.map(|p| p.hard.is_some()).unwrap_or(false);
    let r: Result<Outcome, String> = guard(|| match q.kind {
        Kind::Legacy => {
            let ty = EcdsaSighashType::from_u32(ECDSA[q.ty % 6]);
            if bytes_mode {
                match cache.encode_legacy_signing_data_to(&mut w, q.idx, &script, ty) {
                    Ok(()) => Outcome::Bytes(Vec::new()),
                    Err(e) => Outcome::Err(format!("{:?}", e)),
                }
            } else {
                Outcome::Digest(cache.legacy_sighash(q.idx, &script, ty).to_byte_array())
            }
        }
        Kind::Segwit => {
            let ty = EcdsaSighashType::from_u32(ECDSA[q.ty % 6]);
            if bytes_mode {
                match cache.encode_segwitv0_signing_data_to(&mut w, q.idx, &script, value, ty) {
                    Ok(()) => Outcome::Bytes(Vec::new()),
                    Err(e) => Outcome::Err(format!("{:?}", e)),
                }
            } else {
                Outcome::Digest(cache.segwitv0_sighash(q.idx, &script, value, ty).to_byte_array())
            }
        }
        Kind::Taproot | Kind::TaprootKeySpend | Kind::TaprootScriptSpend => {
            let ty = SCHNORR[q.ty % 8];
            let annex = if q.annex && q.kind == Kind::Taproot { Some(Annex::new(&annex_bytes).expect("0x50 prefix")) } else { None };
            let leaf = match q.kind {
                Kind::Taproot if q.leaf => Some((leaf_hash, codesep)),
                Kind::TaprootScriptSpend => Some((leaf_hash, 0xffff_ffff)),
                _ => None,
            };
            if bytes_mode {
                match cache.taproot_encode_signing_data_to(&mut w, q.idx, &prevouts, annex, leaf, ty, env.genesis) {
                    Ok(()) => Outcome::Bytes(Vec::new()),
                    Err(e) => Outcome::Err(format!("{:?}", e)),
                }
            } else {
                let r = match q.kind {
                    Kind::Taproot => cache.taproot_sighash(q.idx, &prevouts, annex, leaf, ty, env.genesis),
                    Kind::TaprootKeySpend => cache.taproot_key_spend_signature_hash(q.idx, &prevouts, ty, env.genesis),
                    _ => cache.taproot_script_spend_signature_hash(q.idx, &prevouts, leaf_hash, ty, env.genesis),
                };
                match r {
                    Ok(h) => Outcome::Digest(h.to_byte_array()),
                    Err(e) => Outcome::Err(format!("{:?}", e)),
                }
            }
        }
    });
    if let Some(ctx) = ctx {
        ctx.io_counts("write", &w.counts);
    }
    match r {
        Err(m) => Outcome::Panic(m),
        Ok(Outcome::Bytes(_)) => Outcome::Bytes(std::mem::take(&mut w.accepted)),
        Ok(Outcome::Err(e)) if faulty => {
            // keep what reached the medium for the prefix check
            let _ = &w.accepted;
            Outcome::ErrUnderFault(format!("{} [accepted {} bytes]", e, w.accepted.len()))
        }
        Ok(o) => o,
    }
}

pub struct SighashWorld;

fn draw_query(p: &mut Prng, n_in: usize, scenario: &str) -> Option<Query> {
    let kind = match p.below(10) {
        0 | 1 => Kind::Legacy,
        2 | 3 => Kind::Segwit,
        4 | 5 | 6 => Kind::Taproot,
        7 | 8 => Kind::TaprootKeySpend,
        _ => Kind::TaprootScriptSpend,
    };
    let taproot = !matches!(kind, Kind::Legacy | Kind::Segwit);
    let idx = if taproot {
        // out-of-range indices are an error case, not a documented panic, for the taproot calls
        if p.chance(1, 12) {
            n_in + p.usize_below(2)
        } else if n_in == 0 {
            0
        } else {
            p.usize_below(n_in)
        }
    } else {
        if n_in == 0 {
            return None; // documented panic: index out of range
        }
        p.usize_below(n_in)
    };
    let prevouts = if taproot {
        match p.below(20) {
            0 => PrevoutForm::AllShort,
            1 => PrevoutForm::OneOther,
            2..=10 => PrevoutForm::All,
            _ => PrevoutForm::One,
        }
    } else {
        PrevoutForm::All
    };
    let encode_form = p.chance(1, 3);
    let io = if encode_form { Some(IoPlan::draw_benign(p)) } else { None };
    let fault_at_1024 = if encode_form && scenario == "faulty" && p.chance(1, 3) {
        let kind = match p.below(4) {
            0 => HardKind::StorageFull,
            1 => HardKind::BrokenPipe,
            2 => HardKind::Other,
            _ => HardKind::WriteZero,
        };
        Some((p.below(1024) as u32, kind))
    } else {
        None
    };
    Some(Query { kind, idx, ty: if p.chance(1, 12) { 7 } else { p.usize_below(7) }, seed: p.u64(), prevouts, annex: p.chance(1, 3), leaf: p.chance(1, 2), io, fault_at_1024 })
}

impl World for SighashWorld {
    type Case = Case;
    fn name(&self) -> &'static str {
        "sighash"
    }
    fn generate(&self, p: &mut Prng, scenario: &str, _run: u64) -> Case {
        let mut tx = TxSpec::draw_with_corpus(p, 5, 5, 6);
        if tx.n_in == 0 && p.chance(9, 10) {
            tx.n_in = 1;
        }
        tx.max_blob = tx.max_blob.min(300);
        tx.coinbase = false;
        let n_ops = p.urange(1, 24);
        let mut ops: Vec<Op> = Vec::new();
        for _ in 0..n_ops {
            let r = p.below(10);
            if r == 0 {
                ops.push(Op::WitnessPush { idx: if p.chance(1, 10) { tx.n_in } else { p.usize_below(tx.n_in.max(1)) }, seed: p.u64(), len: p.len_biased(100) });
            } else if r <= 2 && !ops.is_empty() {
                // repeat an earlier operation verbatim (caches are filled on first use)
                let k = p.usize_below(ops.len());
                ops.push(ops[k].clone());
            } else if r == 3 && !ops.is_empty() {
                // same query with the other prevout form / other hash type: One before All and the reverse
                let k = p.usize_below(ops.len());
                if let Op::Q(q) = &ops[k] {
                    let mut q2 = q.clone();
                    q2.prevouts = match q.prevouts {
                        PrevoutForm::All => PrevoutForm::One,
                        _ => PrevoutForm::All,
                    };
                    if p.coin() {
                        q2.ty = p.usize_below(8);
                    }
                    ops.push(Op::Q(q2));
                }
            } else if let Some(q) = draw_query(p, tx.n_in, scenario) {
                ops.push(Op::Q(q));
            }
        }
        Case { tx, prevout_seed: p.u64(), ops }
    }

    fn execute(&self, case: &Case, ctx: &mut Ctx) {
        let mut tx = gen::tx(&case.tx);
        let mut shadow = tx.clone();
        // the transaction before any script witness was filled in: no digest commits to script witnesses, so a fresh cache
        // over it must give the same answers too ("...including after script witnesses have been filled in")
        let original = tx.clone();
        let mut pushed = false;
        let prevouts = gen::prevouts(case.prevout_seed, tx.input.len(), case.tx.confidential);
        let genesis = BlockHash::from_byte_array(Prng::from_u64(case.prevout_seed ^ 0x6e).arr32());
        let env = Env { prevouts: &prevouts, genesis };
        ctx.sig_n("n_in", tx.input.len() as u64);
        ctx.sig_n("n_out", tx.output.len() as u64);
        ctx.ev("sighash.start", case.ops.len() as u64);
        {
            let mut cache = SighashCache::new(&mut tx);
            let mut seen_kinds = 0u32;
            for (step, op) in case.ops.iter().enumerate() {
                match op {
                    Op::WitnessPush { idx, seed, len } => {
                        let mut data = Prng::from_u64(*seed).bytes(*len);
                        // one push in four looks like an annex (first byte 0x50): still only a witness item
                        if seed % 4 == 0 && !data.is_empty() {
                            data[0] = 0x50;
                        }
                        ctx.ev("witness_mut", *idx as u64);
                        ctx.sig("wm");
                        ctx.nontrivial = true;
                        let got = guard(|| match cache.witness_mut(*idx) {
                            Some(w) => {
                                w.push(data.clone());
                                true
                            }
                            None => false,
                        });
                        let expect = *idx < shadow.input.len();
                        if expect {
                            shadow.input[*idx].witness.script_witness.push(data);
                            pushed = true;
                        }
                        match got {
                            Ok(g) => {
                                ctx.check(g == expect, "C13.witness_mut", "presence", || format!("step {}: witness_mut({}) returned Some={} with {} inputs", step, idx, g, shadow.input.len()));
                            }
                            Err(m) => ctx.violate("C13.witness_mut", "panic", format!("step {}: witness_mut({}) panicked: {}", step, idx, m)),
                        }
                    }
                    Op::Q(q) => {
                        let kind_bit = match q.kind {
                            Kind::Legacy => 1,
                            Kind::Segwit => 2,
                            _ => 4,
                        };
                        if seen_kinds & !kind_bit != 0 {
                            ctx.nontrivial = true; // interleaving of query families against one cache
                        }
                        if seen_kinds & kind_bit != 0 {
                            ctx.probe("cache_already_warm");
                        }
                        seen_kinds |= kind_bit;
                        if kind_bit != 4 && q.idx >= shadow.input.len() {
                            continue; // documented panic condition (index out of range): excluded
                        }
                        let kname = format!("{:?}", q.kind);
                        ctx.sig(&kname);
                        ctx.sig_n("ty", q.ty as u64 % 8);
                        // ---- reference: a fresh cache, this query alone, perfect writer
                        let encode_form = q.io.is_some();
                        let reference = {
                            let mut fresh = SighashCache::new(&shadow);
                            run_query(&mut fresh, q, &env, None, encode_form, None)
                        };
                        // ---- the stateful cache, through the simulated writer
                        let plan = q.io.as_ref().map(|io| {
                            let mut io = io.clone();
                            if let (Some((frac, kind)), Outcome::Bytes(b)) = (&q.fault_at_1024, &reference) {
                                let at = (b.len() as u64 * *frac as u64 / 1024) as usize;
                                io.hard = Some((at.min(b.len().saturating_sub(1)), kind.clone()));
                            }
                            io
                        });
                        let faulty = plan.as_ref().map(|p| p.hard.is_some()).unwrap_or(false);
                        let got = run_query(&mut cache, q, &env, plan.as_ref(), false, Some(ctx));
                        ctx.ev(&kname, crate::prng::fnv(short(&got).as_bytes()));
                        let inv = match q.kind {
                            Kind::Legacy => "C13.fresh.legacy",
                            Kind::Segwit => "C13.fresh.segwit",
                            _ => "C13.fresh.taproot",
                        };
                        if let Outcome::Panic(m) = &got {
                            if kind_bit == 4 {
                                ctx.violate("C10.panic", &format!("taproot_sighash|{}", crate::ctx::panic_key(m)), format!("step {}: {:?} panicked: {}", step, q, m));
                            }
                        }
                        if faulty {
                            // hard write fault mid-message: must be an error, and what reached the medium is a strict prefix
                            ctx.stats.add("checked.C13.encode.err", 1);
                            match (&got, &reference) {
                                (Outcome::ErrUnderFault(_), _) => {}
                                (_, Outcome::Err(_)) | (_, Outcome::Panic(_)) => {} // query invalid anyway
                                (o, _) => ctx.violate("C13.encode.err", &kname, format!("step {}: write fault injected but call returned {}", step, short(o))),
                            }
                        } else if encode_form {
                            ctx.check(got == reference, "C13.encode.bytes", &kname, || format!("step {}: {:?}: stateful cache through chunked/EINTR writer gave {}, fresh cache gave {}", step, q, short(&got), short(&reference)));
                        } else {
                            let key = match (&got, &reference) {
                                (Outcome::Err(_), Outcome::Digest(_)) => format!("{}:err-vs-ok", kname),
                                (Outcome::Digest(_), Outcome::Err(_)) => format!("{}:ok-vs-err", kname),
                                (Outcome::Err(_), Outcome::Err(_)) => format!("{}:err-differs", kname),
                                _ => kname.clone(),
                            };
                            ctx.check(got == reference, inv, &key, || format!("step {}: {:?}: stateful cache gave {}, fresh cache gave {}", step, q, short(&got), short(&reference)));
                        }
                        match &reference {
                            Outcome::Err(e) => ctx.probe(&format!("err.{}", e.split(|c: char| !c.is_alphanumeric()).next().unwrap_or("?"))),
                            _ => {}
                        }
                        if pushed {
                            let before = {
                                let mut fresh = SighashCache::new(&original);
                                run_query(&mut fresh, q, &env, None, encode_form, None)
                            };
                            ctx.check(before == reference, "C13.witness.independent", &kname, || format!("step {}: {:?}: a fresh cache over the transaction WITH the script witnesses pushed so far gives {}, over the transaction without them {}", step, q, short(&reference), short(&before)));
                        }
                        // ---- second sentence of the property: One vs All
                        if kind_bit == 4 && q.idx < shadow.input.len() && matches!(q.prevouts, PrevoutForm::One | PrevoutForm::All) && !faulty {
                            let acp = (4..=6).contains(&(q.ty % 8));
                            let mut other = q.clone();
                            other.prevouts = if q.prevouts == PrevoutForm::One { PrevoutForm::All } else { PrevoutForm::One };
                            other.io = None;
                            other.fault_at_1024 = None;
                            let mut this = q.clone();
                            this.io = None;
                            this.fault_at_1024 = None;
                            let (r_this, r_other) = {
                                let mut f1 = SighashCache::new(&shadow);
                                let a = run_query(&mut f1, &this, &env, None, false, None);
                                let mut f2 = SighashCache::new(&shadow);
                                let b = run_query(&mut f2, &other, &env, None, false, None);
                                (a, b)
                            };
                            let (r_one, r_all) = if q.prevouts == PrevoutForm::One { (r_this, r_other) } else { (r_other, r_this) };
                            let tyname = format!("sighash_type={:?}", SCHNORR[q.ty % 8]);
                            if acp {
                                ctx.probe("one_vs_all_compared");
                                // only meaningful when the All form succeeds (e.g. SINGLE without a matching output errs on both)
                                if let Outcome::Digest(_) = r_all {
                                    ctx.check(r_one == r_all, "C13.one.equiv", &tyname, || format!("step {}: input {} {}: Prevouts::One gave {}, Prevouts::All gave {}", step, q.idx, tyname, short(&r_one), short(&r_all)));
                                }
                            } else {
                                ctx.probe("one_rejected_checked");
                                ctx.check(matches!(r_one, Outcome::Err(_)), "C13.one.rejected", &tyname, || format!("step {}: input {} {}: Prevouts::One accepted for a type that needs all prevouts: {}", step, q.idx, tyname, short(&r_one)));
                            }
                        }
                    }
                }
            }
        }
        // the transaction seen through the cache is the original plus exactly the pushed witness items
        ctx.check(tx == shadow, "C13.witness_mut", "applied", || "transaction after the history differs from original + pushed witness items".to_string());
        ctx.ev("sighash.end", ctx.steps);
    }

    fn shrink(&self, case: &Case, _v: &Violation) -> Vec<Case> {
        let mut out = Vec::new();
        let n = case.ops.len();
        // drop halves, then single ops
        if n > 1 {
            out.push(Case { ops: case.ops[n / 2..].to_vec(), ..case.clone() });
            out.push(Case { ops: case.ops[..n / 2].to_vec(), ..case.clone() });
            for i in 0..n {
                let mut ops = case.ops.clone();
                ops.remove(i);
                out.push(Case { ops, ..case.clone() });
            }
        }
        // simplify I/O plans
        for i in 0..n {
            if let Op::Q(q) = &case.ops[i] {
                if q.io.is_some() && q.fault_at_1024.is_none() {
                    let mut ops = case.ops.clone();
                    if let Op::Q(q2) = &mut ops[i] {
                        q2.io = None;
                    }
                    out.push(Case { ops, ..case.clone() });
                }
            }
        }
        for t in case.tx.shrinks() {
            out.push(Case { tx: t, ..case.clone() });
        }
        out
    }
}
