//! C14: replica convergence. From a common ancestor, 2..5 parties add fields independently and send
//! their copy to the combiner through the medium, which may reorder and duplicate deliveries; the
//! combiner merges in a chain or in a tree. All orders must agree and nothing may be lost.

use super::{hop, HopPlan};
use crate::ctx::{Ctx, Violation};
use crate::gen;
use crate::prng::{fnv, Prng};
use crate::psetgen::{self, PsetSpec};
use elements::bitcoin::bip32::{ChildNumber, DerivationPath, Fingerprint};
use elements::encode;
use elements::hashes::{hash160, ripemd160, sha256, sha256d, Hash};
use elements::pset::{raw, PartiallySignedTransaction as Pset, PsbtSighashType};
use serde::{Deserialize, Serialize};

#[derive(Clone, Copy, Debug, Serialize, Deserialize, PartialEq, Eq, PartialOrd, Ord)]
pub enum Kind {
    // input, map-valued
    PartialSig,
    Bip32,
    Ripemd,
    Sha256,
    Hash160,
    Hash256,
    TapScriptSig,
    TapLeafScript,
    TapKeyOrigin,
    InProprietary,
    InUnknown,
    // input, single-valued
    NonWitnessUtxo,
    WitnessUtxo,
    SighashType,
    RedeemScript,
    WitnessScript,
    FinalScriptSig,
    FinalScriptWitness,
    Sequence,
    TapKeySig,
    TapInternalKey,
    TapMerkleRoot,
    InUtxoRangeproof,
    InAmount,
    InAsset,
    InValueProof,
    InAssetProof,
    PeginTx,
    PeginTxoutProof,
    PeginGenesis,
    PeginClaimScript,
    PeginValue,
    PeginWitness,
    IssuanceValueRangeproof,
    IssuanceKeysRangeproof,
    IssuanceBlindValueProof,
    IssuanceBlindKeysProof,
    BlindedIssuance,
    /// the explicit issuance amount (keys) added next to an existing commitment: serves the explicit-value proof, the
    /// transaction keeps carrying the commitment
    IssuanceAmountNextToComm,
    IssuanceKeysNextToComm,
    // output, map-valued
    OutBip32,
    OutTapKeyOrigin,
    OutProprietary,
    OutUnknown,
    // output, single-valued
    OutRedeemScript,
    OutWitnessScript,
    OutTapInternalKey,
    OutTapTree,
    OutValueProof,
    OutAssetProof,
    OutRangeproof,
    OutSurjectionProof,
    /// blinding key together with its blinder index, on an output that carries no blinding data yet
    OutBlindingKey,
    // global
    GlobalXpub,
    GlobalScalar,
    GlobalProprietary,
    GlobalUnknown,
    GlobalTxModifiable,
    GlobalElementsModifiable,
}

pub const INPUT_KINDS: &[Kind] = &[
    Kind::PartialSig, Kind::Bip32, Kind::Ripemd, Kind::Sha256, Kind::Hash160, Kind::Hash256, Kind::TapScriptSig, Kind::TapLeafScript, Kind::TapKeyOrigin, Kind::InProprietary, Kind::InUnknown,
    Kind::NonWitnessUtxo, Kind::WitnessUtxo, Kind::SighashType, Kind::RedeemScript, Kind::WitnessScript, Kind::FinalScriptSig, Kind::FinalScriptWitness, Kind::Sequence, Kind::TapKeySig,
    Kind::TapInternalKey, Kind::TapMerkleRoot, Kind::InUtxoRangeproof, Kind::InAmount, Kind::InAsset, Kind::InValueProof, Kind::InAssetProof, Kind::PeginTx, Kind::PeginTxoutProof, Kind::PeginGenesis,
    Kind::PeginClaimScript, Kind::PeginValue,
    // witness-side and bookkeeping fields that do not change the unsigned transaction either
    Kind::PeginWitness, Kind::IssuanceValueRangeproof, Kind::IssuanceKeysRangeproof, Kind::IssuanceBlindValueProof, Kind::IssuanceBlindKeysProof, Kind::BlindedIssuance, Kind::IssuanceAmountNextToComm, Kind::IssuanceKeysNextToComm,
];
pub const OUTPUT_KINDS: &[Kind] = &[Kind::OutBip32, Kind::OutTapKeyOrigin, Kind::OutProprietary, Kind::OutUnknown, Kind::OutRedeemScript, Kind::OutWitnessScript, Kind::OutTapInternalKey, Kind::OutTapTree, Kind::OutValueProof, Kind::OutAssetProof, Kind::OutRangeproof, Kind::OutSurjectionProof, Kind::OutBlindingKey];
pub const GLOBAL_KINDS: &[Kind] = &[Kind::GlobalXpub, Kind::GlobalScalar, Kind::GlobalProprietary, Kind::GlobalUnknown, Kind::GlobalTxModifiable, Kind::GlobalElementsModifiable];

impl Kind {
    fn single_valued(self) -> bool {
        !matches!(
            self,
            Kind::PartialSig | Kind::Bip32 | Kind::Ripemd | Kind::Sha256 | Kind::Hash160 | Kind::Hash256 | Kind::TapScriptSig | Kind::TapLeafScript | Kind::TapKeyOrigin | Kind::InProprietary | Kind::InUnknown | Kind::OutBip32 | Kind::OutTapKeyOrigin | Kind::OutProprietary | Kind::OutUnknown | Kind::GlobalXpub | Kind::GlobalScalar | Kind::GlobalProprietary | Kind::GlobalUnknown
        )
    }
}

#[derive(Clone, Debug, Serialize, Deserialize, PartialEq, Eq)]
pub struct Addition {
    pub kind: Kind,
    /// input or output index (modulo the count); ignored for global kinds
    pub index: usize,
    /// key material; for single-valued kinds the value is a function of (case seed, kind, index) so that
    /// two parties adding the same field add the same value (independent additions only)
    pub seed: u64,
}

#[derive(Clone, Debug, Serialize, Deserialize, PartialEq, Eq)]
pub enum XpubRelation {
    Equal,
    OtherLongerSuffix,
    SelfLongerSuffix,
    UnrelatedSameLen,
    UnrelatedOtherShorter,
    UnrelatedOtherLonger,
    SamePathOtherFingerprint,
}

#[derive(Clone, Debug, Serialize, Deserialize)]
pub struct MergeCase {
    pub base: PsetSpec,
    pub seed: u64,
    pub parties: Vec<Vec<Addition>>,
    /// each order is a sequence of party indices covering all parties (duplicates allowed) and a grouping
    pub orders: Vec<(Vec<usize>, bool)>,
    pub hops: Vec<HopPlan>,
    pub xpub: Option<(XpubRelation, u64)>,
    pub refuse: bool,
}

impl MergeCase {
    pub fn draw(p: &mut Prng, faulty: bool) -> MergeCase {
        let mut base = PsetSpec::draw_with_corpus(p, 8);
        base.at_count_limit = 0;
        base.n_in = base.n_in.max(1);
        let k = p.urange(2, 5);
        let mut parties = Vec::new();
        let mut all: Vec<Addition> = Vec::new();
        for _ in 0..k {
            let n = p.urange(0, 6);
            let mut adds = Vec::new();
            for _ in 0..n {
                if !all.is_empty() && p.chance(1, 4) {
                    // identical addition: the same pair another party adds
                    adds.push(p.pick(&all).clone());
                    continue;
                }
                let kind = match p.below(10) {
                    0..=5 => *p.pick(INPUT_KINDS),
                    6 | 7 => *p.pick(OUTPUT_KINDS),
                    _ => *p.pick(GLOBAL_KINDS),
                };
                let a = Addition { kind, index: p.usize_below(8), seed: p.u64() };
                all.push(a.clone());
                adds.push(a);
            }
            parties.push(adds);
        }
        let n_orders = p.urange(2, 4);
        let mut orders = Vec::new();
        for _ in 0..n_orders {
            let mut seq: Vec<usize> = (0..k).collect();
            p.shuffle(&mut seq);
            if faulty && p.chance(1, 2) {
                // duplicated delivery
                let d = seq[p.usize_below(k)];
                let at = p.usize_below(seq.len() + 1);
                seq.insert(at, d);
            }
            orders.push((seq, p.coin()));
        }
        let hops = (0..k).map(|_| HopPlan::draw(p, faulty)).collect();
        let xpub = if p.chance(1, 2) {
            let rel = match p.below(7) {
                0 => XpubRelation::Equal,
                1 => XpubRelation::OtherLongerSuffix,
                2 => XpubRelation::SelfLongerSuffix,
                3 => XpubRelation::UnrelatedSameLen,
                4 => XpubRelation::UnrelatedOtherShorter,
                5 => XpubRelation::UnrelatedOtherLonger,
                _ => XpubRelation::SamePathOtherFingerprint,
            };
            Some((rel, p.u64()))
        } else {
            None
        };
        MergeCase { base, seed: p.u64(), parties, orders, hops, xpub, refuse: p.chance(1, 4) }
    }
}

fn value_for_key(key: &[u8], n: usize) -> Vec<u8> {
    let mut p = Prng::from_u64(fnv(key));
    let len = 1 + p.usize_below(n);
    p.bytes(len)
}

/// Apply an addition. Returns a presence test to run against the merged result, or None when the
/// addition was not applicable (field already set in the ancestor, no such input/output).
type Present = Box<dyn Fn(&Pset) -> bool>;

fn apply(ps: &mut Pset, a: &Addition, case_seed: u64) -> Option<(String, Present)> {
    let pl = gen::pool();
    let n_in = ps.inputs().len();
    let n_out = ps.outputs().len();
    // the slot a single-valued addition lands in decides its value: two parties filling the same slot agree
    let resolved = if INPUT_KINDS.contains(&a.kind) { a.index % n_in.max(1) } else if OUTPUT_KINDS.contains(&a.kind) { a.index % n_out.max(1) } else { 0 };
    let single_seed = case_seed ^ fnv(format!("{:?}/{}", a.kind, resolved).as_bytes());
    let mut p = Prng::from_u64(if a.kind.single_valued() { single_seed } else { a.seed });
    let name = format!("{:?}", a.kind);
    macro_rules! inp_single {
        ($field:ident, $val:expr) => {{
            if n_in == 0 {
                return None;
            }
            let idx = a.index % n_in;
            let v = $val;
            if ps.inputs()[idx].$field.is_some() {
                return None;
            }
            ps.inputs_mut()[idx].$field = Some(v.clone());
            Some((name, Box::new(move |m: &Pset| m.inputs().get(idx).map(|i| i.$field.as_ref() == Some(&v)).unwrap_or(false)) as Present))
        }};
    }
    macro_rules! inp_map {
        ($field:ident, $key:expr, $val:expr) => {{
            if n_in == 0 {
                return None;
            }
            let idx = a.index % n_in;
            let k = $key;
            let v = $val;
            if let Some(old) = ps.inputs()[idx].$field.get(&k) {
                if *old != v {
                    return None;
                }
            }
            ps.inputs_mut()[idx].$field.insert(k.clone(), v.clone());
            Some((name, Box::new(move |m: &Pset| m.inputs().get(idx).map(|i| i.$field.get(&k) == Some(&v)).unwrap_or(false)) as Present))
        }};
    }
    macro_rules! out_single {
        ($field:ident, $val:expr) => {{
            if n_out == 0 {
                return None;
            }
            let idx = a.index % n_out;
            let v = $val;
            if ps.outputs()[idx].$field.is_some() {
                return None;
            }
            ps.outputs_mut()[idx].$field = Some(v.clone());
            Some((name, Box::new(move |m: &Pset| m.outputs().get(idx).map(|i| i.$field.as_ref() == Some(&v)).unwrap_or(false)) as Present))
        }};
    }
    macro_rules! out_map {
        ($field:ident, $key:expr, $val:expr) => {{
            if n_out == 0 {
                return None;
            }
            let idx = a.index % n_out;
            let k = $key;
            let v = $val;
            if let Some(old) = ps.outputs()[idx].$field.get(&k) {
                if *old != v {
                    return None;
                }
            }
            ps.outputs_mut()[idx].$field.insert(k.clone(), v.clone());
            Some((name, Box::new(move |m: &Pset| m.outputs().get(idx).map(|i| i.$field.get(&k) == Some(&v)).unwrap_or(false)) as Present))
        }};
    }
    let ks_for = |key: &[u8]| {
        let mut q = Prng::from_u64(fnv(key) ^ 0x6b73);
        psetgen::key_source(&mut q, 5)
    };
    match a.kind {
        Kind::PartialSig => {
            let k = psetgen::btc_pubkey(&mut p);
            let v = value_for_key(&k.to_bytes(), 72);
            inp_map!(partial_sigs, k, v)
        }
        Kind::Bip32 => {
            let k = psetgen::btc_pubkey(&mut p);
            let v = ks_for(&k.to_bytes());
            inp_map!(bip32_derivation, k, v)
        }
        Kind::Ripemd => {
            let n = p.len_biased(40);
            let pre = p.bytes(n);
            inp_map!(ripemd160_preimages, ripemd160::Hash::hash(&pre), pre)
        }
        Kind::Sha256 => {
            let n = p.len_biased(40);
            let pre = p.bytes(n);
            inp_map!(sha256_preimages, sha256::Hash::hash(&pre), pre)
        }
        Kind::Hash160 => {
            let n = p.len_biased(40);
            let pre = p.bytes(n);
            inp_map!(hash160_preimages, hash160::Hash::hash(&pre), pre)
        }
        Kind::Hash256 => {
            let n = p.len_biased(40);
            let pre = p.bytes(n);
            inp_map!(hash256_preimages, sha256d::Hash::hash(&pre), pre)
        }
        Kind::TapScriptSig => {
            let k = (psetgen::xonly(&mut p), elements::taproot::TapLeafHash::from_byte_array(p.arr32()));
            let mut q = Prng::from_u64(fnv(&k.1.to_byte_array()));
            let v = psetgen::schnorr_sig(&mut q);
            inp_map!(tap_script_sigs, k, v)
        }
        Kind::TapLeafScript => {
            let k = psetgen::control_block(&mut p);
            let mut q = Prng::from_u64(fnv(&k.serialize()));
            let v = (gen::script(&mut q, 40), psetgen::leaf_version(&mut q));
            inp_map!(tap_scripts, k, v)
        }
        Kind::TapKeyOrigin => {
            let k = psetgen::xonly(&mut p);
            let mut q = Prng::from_u64(fnv(&k.serialize()));
            let n = q.usize_below(3);
            let v = ((0..n).map(|_| elements::taproot::TapLeafHash::from_byte_array(q.arr32())).collect::<Vec<_>>(), psetgen::key_source(&mut q, 4));
            inp_map!(tap_key_origins, k, v)
        }
        Kind::InProprietary => {
            let nk = p.usize_below(8);
            let k = raw::ProprietaryKey { prefix: b"verif".to_vec(), subtype: p.u8(), key: p.bytes(nk) };
            let v = value_for_key(&encode::serialize(&k), 40);
            inp_map!(proprietary, k, v)
        }
        Kind::InUnknown => {
            let nk = p.usize_below(8);
            let k = raw::Key { type_value: 0x40 + (p.u8() & 0x3f), key: p.bytes(nk) };
            let v = value_for_key(&encode::serialize(&k), 40);
            inp_map!(unknown, k, v)
        }
        Kind::NonWitnessUtxo => {
            let mut s = gen::TxSpec::draw(&mut p, 2, 2);
            s.max_blob = 40;
            inp_single!(non_witness_utxo, gen::tx(&s))
        }
        Kind::WitnessUtxo => {
            let mut s = gen::TxSpec::draw(&mut p, 0, 0);
            s.max_blob = 40;
            inp_single!(witness_utxo, gen::txout(&mut p, &s, false))
        }
        Kind::SighashType => inp_single!(sighash_type, PsbtSighashType::from_u32(p.u32())),
        Kind::RedeemScript => inp_single!(redeem_script, gen::script(&mut p, 60)),
        Kind::WitnessScript => inp_single!(witness_script, gen::script(&mut p, 60)),
        Kind::FinalScriptSig => inp_single!(final_script_sig, gen::script(&mut p, 60)),
        Kind::FinalScriptWitness => inp_single!(final_script_witness, gen::witness_stack(&mut p, 3, 60)),
        Kind::Sequence => inp_single!(sequence, gen::sequence(&mut p)),
        Kind::TapKeySig => inp_single!(tap_key_sig, psetgen::schnorr_sig(&mut p)),
        Kind::TapInternalKey => inp_single!(tap_internal_key, psetgen::xonly(&mut p)),
        Kind::TapMerkleRoot => inp_single!(tap_merkle_root, elements::taproot::TapNodeHash::from_byte_array(p.arr32())),
        Kind::InUtxoRangeproof => inp_single!(in_utxo_rangeproof, Box::new(p.pick(&pl.rangeproofs).clone())),
        Kind::InAmount => inp_single!(amount, p.u64()),
        Kind::InAsset => inp_single!(asset, gen::asset_id(&mut p)),
        Kind::InValueProof => inp_single!(blind_value_proof, Box::new(p.pick(&pl.rangeproofs).clone())),
        Kind::InAssetProof => inp_single!(blind_asset_proof, Box::new(p.pick(&pl.surjproofs).clone())),
        Kind::PeginTx => {
            // a minimal bitcoin transaction with one input
            use elements::bitcoin;
            let t = bitcoin::Transaction {
                version: bitcoin::transaction::Version(2),
                lock_time: bitcoin::absolute::LockTime::ZERO,
                input: vec![bitcoin::TxIn { previous_output: bitcoin::OutPoint { txid: { use bitcoin::hashes::Hash as _; bitcoin::Txid::from_byte_array(p.arr32()) }, vout: p.below(4) as u32 }, script_sig: bitcoin::ScriptBuf::new(), sequence: bitcoin::Sequence(p.u32()), witness: bitcoin::Witness::new() }],
                output: vec![],
            };
            inp_single!(pegin_tx, t)
        }
        Kind::PeginTxoutProof => {
            let n = 1 + p.usize_below(80);
            inp_single!(pegin_txout_proof, p.bytes(n))
        }
        Kind::PeginGenesis => inp_single!(pegin_genesis_hash, elements::BlockHash::from_byte_array(p.arr32())),
        Kind::PeginClaimScript => inp_single!(pegin_claim_script, gen::script(&mut p, 40)),
        Kind::PeginValue => inp_single!(pegin_value, p.u64()),
        Kind::PeginWitness => inp_single!(pegin_witness, gen::witness_stack(&mut p, 4, 60)),
        Kind::IssuanceValueRangeproof => inp_single!(issuance_value_rangeproof, Box::new(p.pick(&pl.rangeproofs).clone())),
        Kind::IssuanceKeysRangeproof => inp_single!(issuance_keys_rangeproof, Box::new(p.pick(&pl.rangeproofs).clone())),
        Kind::IssuanceBlindValueProof => inp_single!(in_issuance_blind_value_proof, Box::new(p.pick(&pl.rangeproofs).clone())),
        Kind::IssuanceBlindKeysProof => inp_single!(in_issuance_blind_inflation_keys_proof, Box::new(p.pick(&pl.rangeproofs).clone())),
        Kind::BlindedIssuance => inp_single!(blinded_issuance, p.u8()),
        Kind::IssuanceAmountNextToComm => {
            if n_in == 0 || ps.inputs()[a.index % n_in].issuance_value_comm.is_none() {
                return None;
            }
            inp_single!(issuance_value_amount, 1 + p.below(1 << 40))
        }
        Kind::IssuanceKeysNextToComm => {
            if n_in == 0 || ps.inputs()[a.index % n_in].issuance_inflation_keys_comm.is_none() {
                return None;
            }
            inp_single!(issuance_inflation_keys, 1 + p.below(1000))
        }
        Kind::OutBip32 => {
            let k = psetgen::btc_pubkey(&mut p);
            let v = ks_for(&k.to_bytes());
            out_map!(bip32_derivation, k, v)
        }
        Kind::OutTapKeyOrigin => {
            let k = psetgen::xonly(&mut p);
            let mut q = Prng::from_u64(fnv(&k.serialize()));
            let n = q.usize_below(3);
            let v = ((0..n).map(|_| elements::taproot::TapLeafHash::from_byte_array(q.arr32())).collect::<Vec<_>>(), psetgen::key_source(&mut q, 4));
            out_map!(tap_key_origins, k, v)
        }
        Kind::OutProprietary => {
            let nk = p.usize_below(8);
            let k = raw::ProprietaryKey { prefix: b"verif".to_vec(), subtype: p.u8(), key: p.bytes(nk) };
            let v = value_for_key(&encode::serialize(&k), 40);
            out_map!(proprietary, k, v)
        }
        Kind::OutUnknown => {
            let nk = p.usize_below(8);
            let k = raw::Key { type_value: 0x40 + (p.u8() & 0x3f), key: p.bytes(nk) };
            let v = value_for_key(&encode::serialize(&k), 40);
            out_map!(unknown, k, v)
        }
        Kind::OutRedeemScript => out_single!(redeem_script, gen::script(&mut p, 60)),
        Kind::OutWitnessScript => out_single!(witness_script, gen::script(&mut p, 60)),
        Kind::OutTapInternalKey => out_single!(tap_internal_key, psetgen::xonly(&mut p)),
        Kind::OutTapTree => {
            let n = p.urange(1, 4);
            out_single!(tap_tree, psetgen::tap_tree(&mut p, n))
        }
        Kind::OutValueProof => out_single!(blind_value_proof, Box::new(p.pick(&pl.rangeproofs).clone())),
        Kind::OutAssetProof => out_single!(blind_asset_proof, Box::new(p.pick(&pl.surjproofs).clone())),
        // proofs on an output that is not marked for blinding (on a marked one the format demands all blinding data or none)
        // (outputs at even positions may receive stray proofs, outputs at odd positions a blinding key: never both, so that
        // no merged output ends up marked with incomplete blinding data)
        Kind::OutBlindingKey => {
            if n_out == 0 || (a.index % n_out) % 2 == 0 {
                return None;
            }
            let idx = a.index % n_out;
            let o = &ps.outputs()[idx];
            if o.blinding_key.is_some() || o.blinder_index.is_some() || o.amount_comm.is_some() || o.asset_comm.is_some() || o.value_rangeproof.is_some() || o.asset_surjection_proof.is_some() || o.ecdh_pubkey.is_some() {
                return None;
            }
            let k = psetgen::btc_pubkey(&mut p);
            let bi = p.below(4) as u32;
            ps.outputs_mut()[idx].blinding_key = Some(k);
            ps.outputs_mut()[idx].blinder_index = Some(bi);
            Some((name, Box::new(move |m: &Pset| m.outputs().get(idx).map(|o| o.blinding_key == Some(k) && o.blinder_index == Some(bi)).unwrap_or(false)) as Present))
        }
        Kind::OutRangeproof | Kind::OutSurjectionProof => {
            if n_out == 0 || (a.index % n_out) % 2 == 1 || ps.outputs()[a.index % n_out].blinding_key.is_some() {
                return None;
            }
            if a.kind == Kind::OutRangeproof {
                out_single!(value_rangeproof, Box::new(p.pick(&pl.rangeproofs).clone()))
            } else {
                out_single!(asset_surjection_proof, Box::new(p.pick(&pl.surjproofs).clone()))
            }
        }
        Kind::GlobalXpub => {
            // a fresh xpub per addition seed; key source is a function of the xpub
            use elements::bitcoin::bip32::{Xpriv, Xpub};
            let xpriv = Xpriv::new_master(elements::bitcoin::Network::Bitcoin, &p.bytes(32)).ok()?;
            let k = Xpub::from_priv(gen::secp(), &xpriv);
            let v = ks_for(&k.encode());
            if let Some(old) = ps.global.xpub.get(&k) {
                if *old != v {
                    return None;
                }
            }
            ps.global.xpub.insert(k, v.clone());
            Some((name, Box::new(move |m: &Pset| m.global.xpub.get(&k) == Some(&v)) as Present))
        }
        Kind::GlobalScalar => {
            let t = gen::tweak(&mut p);
            if !ps.global.scalars.contains(&t) {
                ps.global.scalars.push(t);
            }
            Some((name, Box::new(move |m: &Pset| m.global.scalars.contains(&t)) as Present))
        }
        Kind::GlobalProprietary => {
            let nk = p.usize_below(8);
            let k = raw::ProprietaryKey { prefix: b"verif".to_vec(), subtype: p.u8(), key: p.bytes(nk) };
            let v = value_for_key(&encode::serialize(&k), 40);
            if let Some(old) = ps.global.proprietary.get(&k) {
                if *old != v {
                    return None;
                }
            }
            ps.global.proprietary.insert(k.clone(), v.clone());
            Some((name, Box::new(move |m: &Pset| m.global.proprietary.get(&k) == Some(&v)) as Present))
        }
        Kind::GlobalUnknown => {
            let nk = p.usize_below(8);
            let k = raw::Key { type_value: 0x40 + (p.u8() & 0x3f), key: p.bytes(nk) };
            let v = value_for_key(&encode::serialize(&k), 40);
            if let Some(old) = ps.global.unknown.get(&k) {
                if *old != v {
                    return None;
                }
            }
            ps.global.unknown.insert(k.clone(), v.clone());
            Some((name, Box::new(move |m: &Pset| m.global.unknown.get(&k) == Some(&v)) as Present))
        }
        Kind::GlobalTxModifiable => {
            // flags are OR-ed by the combiner: every bit a party sets must survive
            let bit = 1u8 << p.below(3);
            let cur = ps.global.tx_data.tx_modifiable.unwrap_or(0);
            ps.global.tx_data.tx_modifiable = Some(cur | bit);
            Some((name, Box::new(move |m: &Pset| m.global.tx_data.tx_modifiable.unwrap_or(0) & bit == bit) as Present))
        }
        Kind::GlobalElementsModifiable => {
            if ps.global.elements_tx_modifiable_flag.is_some() {
                return None;
            }
            let v = p.u8();
            ps.global.elements_tx_modifiable_flag = Some(v);
            Some((name, Box::new(move |m: &Pset| m.global.elements_tx_modifiable_flag == Some(v)) as Present))
        }
    }
}

fn merge_seq(ctx: &mut Ctx, ds: &[Pset], seq: &[usize], tree: bool) -> Option<Result<Pset, String>> {
    if seq.len() == 1 || !tree {
        let mut acc = ds[seq[0]].clone();
        for k in &seq[1..] {
            let other = ds[*k].clone();
            match ctx.call("Pset::merge", 0, || acc.merge(other)) {
                Some(Ok(())) => {}
                Some(Err(e)) => return Some(Err(format!("{:?}", e))),
                None => {
                    ctx.violate("C14.ok", "panic", "merge panicked".to_string());
                    return None;
                }
            }
        }
        Some(Ok(acc))
    } else {
        let mid = seq.len() / 2;
        let l = merge_seq(ctx, ds, &seq[..mid], tree)?;
        let r = merge_seq(ctx, ds, &seq[mid..], tree)?;
        match (l, r) {
            (Ok(mut a), Ok(b)) => match ctx.call("Pset::merge", 0, || a.merge(b)) {
                Some(Ok(())) => Some(Ok(a)),
                Some(Err(e)) => Some(Err(format!("{:?}", e))),
                None => {
                    ctx.violate("C14.ok", "panic", "merge panicked".to_string());
                    None
                }
            },
            (Err(e), _) | (_, Err(e)) => Some(Err(e)),
        }
    }
}

fn path(v: &[u32]) -> DerivationPath {
    DerivationPath::from(v.iter().map(|x| ChildNumber::from(*x)).collect::<Vec<_>>())
}

fn xpub_check(ctx: &mut Ctx, base: &Pset, rel: &XpubRelation, seed: u64) {
    use elements::bitcoin::bip32::{Xpriv, Xpub};
    let mut p = Prng::from_u64(seed);
    let Ok(xpriv) = Xpriv::new_master(elements::bitcoin::Network::Bitcoin, &p.bytes(32)) else { return };
    let xpub = Xpub::from_priv(gen::secp(), &xpriv);
    let fp1 = Fingerprint::from([1, 2, 3, 4]);
    let fp2 = Fingerprint::from([9, 9, 9, 9]);
    let n = p.urange(1, 4);
    let common: Vec<u32> = (0..n).map(|_| p.below(100) as u32).collect();
    let mut longer = vec![p.below(100) as u32 + 1000];
    if p.coin() {
        longer.insert(0, 7);
    }
    longer.extend(common.iter());
    let mut unrelated_same = common.clone();
    unrelated_same[0] ^= 0x8000;
    let mut unrelated_longer = longer.clone();
    let last = unrelated_longer.len() - 1;
    unrelated_longer[last] ^= 0x8000;
    // (self source, other source, expected: Some(winner) or None = conflict)
    let (a, b, expect): ((Fingerprint, Vec<u32>), (Fingerprint, Vec<u32>), Option<(Fingerprint, Vec<u32>)>) = match rel {
        XpubRelation::Equal => ((fp1, common.clone()), (fp1, common.clone()), Some((fp1, common.clone()))),
        XpubRelation::OtherLongerSuffix => ((fp1, common.clone()), (fp2, longer.clone()), Some((fp2, longer.clone()))),
        XpubRelation::SelfLongerSuffix => ((fp2, longer.clone()), (fp1, common.clone()), Some((fp2, longer.clone()))),
        XpubRelation::UnrelatedSameLen => ((fp1, common.clone()), (fp1, unrelated_same.clone()), None),
        XpubRelation::UnrelatedOtherShorter => ((fp1, unrelated_longer.clone()), (fp1, common.clone()), None),
        XpubRelation::UnrelatedOtherLonger => ((fp1, common.clone()), (fp1, unrelated_longer.clone()), None),
        XpubRelation::SamePathOtherFingerprint => ((fp1, common.clone()), (fp2, common.clone()), None),
    };
    let relname = format!("{:?}", rel);
    ctx.sig(&relname);
    let mut pa = base.clone();
    pa.global.xpub.insert(xpub, (a.0, path(&a.1)));
    let mut pb = base.clone();
    pb.global.xpub.insert(xpub, (b.0, path(&b.1)));
    // each side also knows an xpub the other does not (sorting before or after the related one): both must survive
    let mut extras = Vec::new();
    for side in 0..2 {
        if let Ok(xp) = Xpriv::new_master(elements::bitcoin::Network::Bitcoin, &p.bytes(32)) {
            let k = Xpub::from_priv(gen::secp(), &xp);
            let ks = (fp1, path(&[p.below(50) as u32, side]));
            if side == 0 { pa.global.xpub.insert(k, ks) } else { pb.global.xpub.insert(k, ks) };
            extras.push(k);
        }
    }
    for (dir, x, y) in [("self<-other", &pa, &pb), ("other<-self", &pb, &pa)] {
        let mut m = x.clone();
        let other = y.clone();
        let Some(r) = ctx.call("Pset::merge", 0, || m.merge(other)) else { continue };
        ctx.ev("xpub.merge", r.is_ok() as u64);
        match (&expect, r) {
            (Some((fp, pth)), Ok(())) => {
                ctx.check(extras.iter().all(|k| m.global.xpub.contains_key(k)), "C14.union.GlobalXpub", "lost-next-to-related", || format!("xpub key sources {:?} ({}): an xpub known to one operand only is missing after the merge", rel, dir));
                let got = m.global.xpub.get(&xpub).cloned();
                ctx.check(got == Some((*fp, path(pth))), &format!("C14.xpub.{}", relname), "wrong-winner", || format!("xpub key sources {:?} ({}): documented rule keeps the longer derivation {:?}/{:?}, merge kept {:?}", rel, dir, fp, pth, got));
            }
            (None, Err(e)) => {
                ctx.check(matches!(e, elements::pset::Error::MergeConflict(_)), &format!("C14.xpub.{}", relname), "wrong-error", || format!("xpub key sources {:?} ({}): expected MergeConflict, got {:?}", rel, dir, e));
            }
            (Some(_), Err(e)) => ctx.violate(&format!("C14.xpub.{}", relname), "unexpected-conflict", format!("xpub key sources {:?} ({}): documented rule reconciles them, merge returned {:?}", rel, dir, e)),
            (None, Ok(())) => ctx.violate(&format!("C14.xpub.{}", relname), "conflict-accepted", format!("xpub key sources {:?} ({}): documented rule says merge conflict, merge returned Ok and kept {:?}", rel, dir, m.global.xpub.get(&xpub))),
        }
    }
}

pub fn execute(case: &MergeCase, ctx: &mut Ctx) {
    ctx.sig("merge");
    let ancestor = psetgen::pset(&case.base);
    let id0 = match ctx.call("Pset::unique_id", 0, || ancestor.unique_id()) {
        Some(Ok(id)) => id,
        _ => {
            // e.g. a lock-time conflict among the generated inputs: there is no "same transaction" to speak of.
            // Merging must still be total: operands whose ids both fail, of equal or different shape, in both
            // directions (nothing is asserted about the outcome except that it is not a panic).
            ctx.probe("ancestor_without_unique_id");
            ctx.nontrivial = true;
            let mut longer = ancestor.clone();
            let mut q = Prng::from_u64(case.seed);
            longer.add_input(psetgen::input(&mut q, &case.base));
            longer.add_output(psetgen::output(&mut q, &case.base, 1));
            for (x, y) in [(&ancestor, &longer), (&longer, &ancestor), (&ancestor, &ancestor)] {
                let mut m = x.clone();
                let o = y.clone();
                if ctx.call("Pset::merge", 0, || m.merge(o).is_ok()).is_none() {
                    ctx.violate("C14.ok", "panic", "merge of PSETs without a unique id panicked".to_string());
                }
            }
            return;
        }
    };
    ctx.nontrivial = true;
    ctx.sig_n("parties", case.parties.len() as u64);
    // ---- each party derives its copy by independent additions and sends it to the combiner
    let mut delivered: Vec<Pset> = Vec::new();
    let mut tests: Vec<(usize, String, Present)> = Vec::new();
    for (pi, adds) in case.parties.iter().enumerate() {
        let mut d = ancestor.clone();
        for a in adds {
            if let Some((name, t)) = apply(&mut d, a, case.seed) {
                ctx.sig(&name);
                tests.push((pi, name, t));
            }
        }
        ctx.ev("party.additions", adds.len() as u64);
        let plan = case.hops.get(pi).cloned().unwrap_or_else(HopPlan::perfect);
        match hop(ctx, &d, &plan) {
            Some(x) => delivered.push(x),
            None => return,
        }
    }
    // ---- the combiner merges the same multiset under several orders and groupings
    let mut results: Vec<(usize, Pset)> = Vec::new();
    for (oi, (seq, tree)) in case.orders.iter().enumerate() {
        let seq: Vec<usize> = seq.iter().map(|k| k % delivered.len()).collect();
        if seq.len() != case.orders[0].0.len() && case.orders[0].0.len() == delivered.len() {
            ctx.probe("duplicate_delivery_merged");
        }
        let Some(r) = merge_seq(ctx, &delivered, &seq, *tree) else { return };
        ctx.ev("merge.order", oi as u64);
        match r {
            Ok(m) => {
                match ctx.call("Pset::unique_id", 0, || m.unique_id()) {
                    Some(Ok(id)) => {
                        ctx.check(id == id0, "C14.uid", "changed", || format!("order {:?}: unique id after merge {} differs from the ancestor's {}", seq, id, id0));
                    }
                    Some(Err(e)) => ctx.violate("C14.uid", "err", format!("order {:?}: unique_id after merge failed: {:?}", seq, e)),
                    None => {}
                }
                // nothing lost: every addition of every party whose delivery took part is present
                for (pi, name, t) in &tests {
                    if seq.contains(pi) {
                        ctx.check(t(&m), &format!("C14.union.{}", name), "lost", || format!("order {:?} (tree={}): addition {} of party {} is missing from the merged PSET", seq, tree, name, pi));
                    }
                }
                results.push((oi, m));
            }
            Err(e) => ctx.violate("C14.ok", &e.split('(').next().unwrap_or("err").to_string(), format!("order {:?} (tree={}): merging PSETs derived from one ancestor failed: {}", seq, tree, e)),
        }
    }
    // all orders covering the same set of parties agree
    let full: Vec<&(usize, Pset)> = results.iter().filter(|(oi, _)| {
        let mut s: Vec<usize> = case.orders[*oi].0.iter().map(|k| k % delivered.len()).collect();
        s.sort();
        s.dedup();
        s.len() == delivered.len()
    }).collect();
    for w in full.windows(2) {
        let (oa, a) = w[0];
        let (ob, b) = w[1];
        let dup = case.orders[*oa].0.len() != delivered.len() || case.orders[*ob].0.len() != delivered.len();
        let inv = if dup { "C14.dup" } else { "C14.order" };
        let eq = a == b;
        let field = if eq { String::new() } else { diff_field(a, b) };
        ctx.check(eq, inv, &field, || format!("orders {:?} and {:?} give different PSETs (first differing field: {})", case.orders[*oa], case.orders[*ob], field));
        if eq {
            let (sa, sb) = (encode::serialize(a), encode::serialize(b));
            ctx.check(sa == sb, inv, "bytes", || format!("orders {:?} and {:?} give equal PSETs with different serializations", case.orders[*oa], case.orders[*ob]));
        }
    }
    // ---- xpub key-source reconciliation, both directions
    if let Some((rel, seed)) = &case.xpub {
        xpub_check(ctx, &ancestor, rel, *seed);
    }
    // ---- a PSET describing another transaction is refused
    if case.refuse {
        // ... also when it has another shape (more inputs / outputs), in both directions
        let mut longer = ancestor.clone();
        let mut q = Prng::from_u64(case.seed ^ 0x10);
        let mut extra = psetgen::input(&mut q, &case.base);
        extra.required_time_locktime = None;
        extra.required_height_locktime = None;
        longer.add_input(extra);
        for (x, y) in [(&ancestor, &longer), (&longer, &ancestor)] {
            let mut a = x.clone();
            let o = y.clone();
            match ctx.call("Pset::merge", 0, || a.merge(o)) {
                Some(r) => {
                    ctx.check(r.is_err(), "C14.refuse", "other-shape-accepted", || "merging a PSET with a different number of inputs returned Ok".to_string());
                }
                None => ctx.violate("C14.ok", "panic", "merge of PSETs of different shape panicked".to_string()),
            }
        }
        if ancestor.inputs().is_empty() {
            // (a repository vector without inputs)
            return;
        }
        // ... and an operand that has NO unique id at all (its inputs' lock-time requirements contradict each other):
        // whatever merge answers, a receiver that had a unique id still has the same one afterwards
        if ancestor.inputs().len() >= 2 {
            let mut bad = ancestor.clone();
            {
                let ins = bad.inputs_mut();
                ins[0].required_time_locktime = Some(elements::locktime::Time::from_consensus(500_000_000 + q.below(1000) as u32).expect("time"));
                ins[0].required_height_locktime = None;
                ins[1].required_height_locktime = Some(elements::locktime::Height::from_consensus(1 + q.below(1000) as u32).expect("height"));
                ins[1].required_time_locktime = None;
            }
            if matches!(ctx.call("Pset::unique_id", 0, || bad.unique_id().is_err()), Some(true)) {
                ctx.probe("one_sided_missing_unique_id");
                for (dir, x, y) in [("valid<-idless", &ancestor, &bad), ("idless<-valid", &bad, &ancestor)] {
                    let mut m = x.clone();
                    let o = y.clone();
                    match ctx.call("Pset::merge", 0, || m.merge(o)) {
                        Some(r) => {
                            if dir == "valid<-idless" {
                                let after = ctx.call("Pset::unique_id", 0, || m.unique_id());
                                let kept = matches!(&after, Some(Ok(id)) if *id == id0);
                                ctx.check(kept, "C14.uid", "lost-after-idless-operand", || format!("merging an operand without a unique id into a PSET returned {:?} and left the receiver with unique id {:?} instead of {}", r.is_ok(), after, id0));
                            }
                        }
                        None => ctx.violate("C14.ok", "panic", format!("merge ({}) with an operand that has no unique id panicked", dir)),
                    }
                }
            }
        }
        let mut other = ancestor.clone();
        other.inputs_mut()[0].previous_output_index = other.inputs()[0].previous_output_index.wrapping_add(1) & 0x3fff_ffff;
        if let Some(Ok(id1)) = ctx.call("Pset::unique_id", 0, || other.unique_id()) {
            if id1 != id0 {
                let mut a = ancestor.clone();
                if let Some(r) = ctx.call("Pset::merge", 0, || a.merge(other)) {
                    ctx.check(matches!(r, Err(elements::pset::Error::UniqueIdMismatch { .. })), "C14.refuse", "accepted", || format!("merging a PSET with another unique id returned {:?}", r));
                    ctx.check(a == ancestor, "C14.refuse", "mutated", || "a refused merge modified the receiver".to_string());
                }
            }
        }
    }
}

fn diff_field(a: &Pset, b: &Pset) -> String {
    if a.global != b.global {
        if a.global.xpub != b.global.xpub {
            return "global.xpub".into();
        }
        if a.global.scalars != b.global.scalars {
            return "global.scalars".into();
        }
        if a.global.tx_data != b.global.tx_data {
            return "global.tx_data".into();
        }
        return "global".into();
    }
    for (x, y) in a.inputs().iter().zip(b.inputs()) {
        if x != y {
            if x.non_witness_utxo != y.non_witness_utxo {
                return "input.non_witness_utxo".into();
            }
            if x.witness_utxo != y.witness_utxo {
                return "input.witness_utxo".into();
            }
            if x.sighash_type != y.sighash_type {
                return "input.sighash_type".into();
            }
            if x.sequence != y.sequence {
                return "input.sequence".into();
            }
            return "input".into();
        }
    }
    for (x, y) in a.outputs().iter().zip(b.outputs()) {
        if x != y {
            return "output".into();
        }
    }
    "?".into()
}

pub fn shrink(case: &MergeCase, _v: &Violation) -> Vec<MergeCase> {
    let mut out = Vec::new();
    // fewer additions
    for pi in 0..case.parties.len() {
        for ai in 0..case.parties[pi].len() {
            let mut c = case.clone();
            c.parties[pi].remove(ai);
            out.push(c);
        }
    }
    if case.orders.len() > 2 {
        for i in 0..case.orders.len() {
            let mut c = case.clone();
            c.orders.remove(i);
            out.push(c);
        }
    }
    if case.xpub.is_some() {
        out.push(MergeCase { xpub: None, ..case.clone() });
    }
    if case.refuse {
        out.push(MergeCase { refuse: false, ..case.clone() });
    }
    if case.hops.iter().any(|h| *h != HopPlan::perfect()) {
        out.push(MergeCase { hops: case.hops.iter().map(|_| HopPlan::perfect()).collect(), ..case.clone() });
    }
    for s in case.base.shrinks() {
        if s.n_in >= 1 {
            out.push(MergeCase { base: s, ..case.clone() });
        }
    }
    out
}
