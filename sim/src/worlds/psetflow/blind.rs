//! C09: multi-party PSET blinding. Parties each own a subset of inputs and know only those inputs'
//! secrets; outputs are assigned through blinder_index; every hand-over is a serialized hop.

use super::{hop, HopPlan};
use crate::ctx::{Ctx, Violation};
use crate::gen::{self, secp};
use crate::prng::Prng;
use crate::seams::{Personality, RngPlan, SimRng};
use elements::confidential::{Asset, AssetBlindingFactor, Nonce, Value, ValueBlindingFactor};
use elements::pset::{Input, Output, PartiallySignedTransaction as Pset};
use elements::secp256k1_zkp::{PublicKey, SecretKey};
use elements::{AssetId, AssetIssuance, BlindAssetProofs, BlindValueProofs, LockTime, OutPoint, Script, Transaction, TxIn, TxOut, TxOutSecrets, TxOutWitness};
use serde::{Deserialize, Serialize};
use std::collections::{BTreeMap, HashMap};

#[derive(Clone, Debug, Serialize, Deserialize, PartialEq, Eq)]
pub struct BlindSpec {
    pub seed: u64,
    pub n_parties: usize,
    pub n_in: usize,
    pub n_assets: usize,
    pub extra_outputs: usize,
    pub conf_inputs: bool,
    pub explicit_outputs: bool,
    pub fee: bool,
    pub issuance: bool,
    /// build inputs through from_txin (flag bits carried in the index) instead of from_prevout
    pub via_from_tx: bool,
}

impl BlindSpec {
    pub fn shrinks(&self) -> Vec<BlindSpec> {
        let mut v = Vec::new();
        let mut push = |s: BlindSpec| {
            if s != *self {
                v.push(s)
            }
        };
        push(BlindSpec { n_parties: 1, ..self.clone() });
        push(BlindSpec { n_parties: self.n_parties.saturating_sub(1).max(1), ..self.clone() });
        push(BlindSpec { n_in: self.n_in.saturating_sub(1).max(1), ..self.clone() });
        push(BlindSpec { n_assets: 1, ..self.clone() });
        push(BlindSpec { extra_outputs: self.extra_outputs / 2, ..self.clone() });
        push(BlindSpec { conf_inputs: false, ..self.clone() });
        push(BlindSpec { explicit_outputs: false, ..self.clone() });
        push(BlindSpec { fee: false, ..self.clone() });
        push(BlindSpec { issuance: false, ..self.clone() });
        push(BlindSpec { via_from_tx: false, ..self.clone() });
        v
    }
}

#[derive(Clone, Debug, Serialize, Deserialize)]
pub struct BlindCase {
    pub spec: BlindSpec,
    /// order in which parties act; the last element runs blind_last
    pub order_seed: u64,
    pub rngs: Vec<RngPlan>,
    pub hops: Vec<HopPlan>,
    /// party (by position in the order) that forgets its result before sending and redoes its step
    pub amnesia: Option<usize>,
    pub unconstrained: bool,
    /// before the party at this position acts, the PSET it receives carries an additional all-zero scalar (a
    /// legal scalar: the contribution of a party whose blinders cancel); the balance must be unaffected
    #[serde(default)]
    pub zero_scalar_before: Option<usize>,
}

impl BlindCase {
    pub fn draw(p: &mut Prng, faulty: bool) -> BlindCase {
        let n_parties = *p.pick(&[1usize, 2, 2, 3, 3, 4]);
        let spec = BlindSpec {
            seed: p.u64(),
            n_parties,
            n_in: p.urange(n_parties, (n_parties + 2).min(5)),
            n_assets: *p.pick(&[1usize, 1, 2, 2, 3]),
            extra_outputs: p.urange(0, 2),
            conf_inputs: p.chance(2, 3),
            explicit_outputs: p.chance(1, 2),
            fee: p.chance(2, 3),
            issuance: p.chance(1, 4),
            via_from_tx: p.chance(1, 3),
        };
        BlindCase {
            spec,
            order_seed: p.u64(),
            rngs: (0..n_parties).map(|_| RngPlan { seed: p.u64(), personality: Personality::Uniform }).collect(),
            hops: (0..n_parties + 1).map(|_| HopPlan::draw(p, faulty)).collect(),
            amnesia: if faulty && p.chance(1, 3) { Some(p.usize_below(n_parties)) } else { None },
            unconstrained: false,
            zero_scalar_before: if faulty && p.chance(1, 4) { Some(p.usize_below(n_parties)) } else { None },
        }
    }
}

pub struct Flow {
    pub pset: Pset,
    pub utxos: Vec<TxOut>,
    /// per input: owner party and secrets
    pub owners: Vec<usize>,
    pub secrets: Vec<TxOutSecrets>,
    /// per output: receiver key if marked, original (asset, value)
    pub receivers: Vec<Option<SecretKey>>,
    pub originals: Vec<(AssetId, u64)>,
}

fn spk(p: &mut Prng) -> Script {
    crate::worlds::ct::addressable_script(p)
}

pub fn build(spec: &BlindSpec) -> Flow {
    let secp = secp();
    let mut p = Prng::from_u64(spec.seed);
    let k = spec.n_parties.max(1);
    let n_in = spec.n_in.max(k);
    let assets: Vec<AssetId> = (0..spec.n_assets.max(1)).map(|_| gen::asset_id(&mut p)).collect();
    let mut ps = Pset::new_v2();
    let mut utxos = Vec::new();
    let mut owners = Vec::new();
    let mut secrets = Vec::new();
    // per (party, asset): spendable total; issuance totals belong to the issuing input's owner
    let mut totals: BTreeMap<(usize, AssetId), u64> = BTreeMap::new();
    let mut an_input_of: BTreeMap<(usize, AssetId), usize> = BTreeMap::new();
    for i in 0..n_in {
        let owner = if i < k { i } else { p.usize_below(k) };
        let asset = *p.pick(&assets);
        let vmax = if p.coin() { 1000 } else { 1 << 40 };
        let value = 1 + p.below(vmax);
        // explicit / fully confidential / explicit asset with committed value / committed asset with zero value blinder
        let kind = if spec.conf_inputs { p.below(6) } else { 0 };
        let (abf, vbf) = match kind {
            0 | 1 => (AssetBlindingFactor::zero(), ValueBlindingFactor::zero()),
            2 => (AssetBlindingFactor::zero(), gen::vbf(&mut p)),
            3 => (gen::abf(&mut p), ValueBlindingFactor::zero()),
            _ => (gen::abf(&mut p), gen::vbf(&mut p)),
        };
        let utxo = TxOut {
            asset: if kind >= 3 { Asset::new_confidential(secp, asset, abf) } else { Asset::Explicit(asset) },
            value: if kind >= 2 { Value::new_confidential_from_assetid(secp, value, asset, vbf, abf) } else { Value::Explicit(value) },
            nonce: Nonce::Null,
            script_pubkey: spk(&mut p),
            witness: TxOutWitness::default(),
        };
        let prevout = OutPoint::new(gen::txid(&mut p), p.below(4) as u32);
        let mut txin = TxIn { previous_output: prevout, ..Default::default() };
        // a peg-in input now and then (through from_txin its flag bit travels in the stored index, next to the issuance bit)
        if spec.via_from_tx && p.chance(1, 2) {
            txin.is_pegin = true;
        }
        let issue = spec.issuance && p.chance(1, 2);
        if issue {
            let amt = 1 + p.below(1 << 30);
            // a new issuance (with or without reissuance tokens) or, one time in four, a reissuance (non-zero blinding
            // nonce, entropy carried in the input, no tokens)
            let reissue = p.chance(1, 4);
            txin.asset_issuance = AssetIssuance {
                asset_blinding_nonce: if reissue { *p.pick(&gen::pool().tweaks) } else { gen::ZERO_TWEAK },
                asset_entropy: p.arr32(),
                amount: Value::Explicit(amt),
                inflation_keys: if !reissue && p.coin() { Value::Explicit(2) } else { Value::Null },
            };
        }
        let mut inp = if spec.via_from_tx {
            let mut x = Input::from_txin(txin.clone());
            x.final_script_sig = None;
            x.final_script_witness = None;
            x
        } else {
            let mut x = Input::from_prevout(prevout);
            if issue {
                x.issuance_value_amount = txin.asset_issuance.amount.explicit();
                x.issuance_inflation_keys = txin.asset_issuance.inflation_keys.explicit();
                x.issuance_asset_entropy = Some(txin.asset_issuance.asset_entropy);
                x.issuance_blinding_nonce = Some(txin.asset_issuance.asset_blinding_nonce);
            }
            x
        };
        if issue {
            inp.blinded_issuance = Some(0);
            // ids as the transaction input defines them (the PSET must agree: C11 is not decided here, but a
            // disagreement makes the surjection proofs unverifiable and shows up as C09.final.verify)
            let (aid, tid) = txin.issuance_ids();
            *totals.entry((owner, aid)).or_insert(0) += txin.asset_issuance.amount.explicit().unwrap();
            an_input_of.entry((owner, aid)).or_insert(i);
            if let Some(kv) = txin.asset_issuance.inflation_keys.explicit() {
                *totals.entry((owner, tid)).or_insert(0) += kv;
                an_input_of.entry((owner, tid)).or_insert(i);
            }
        }
        inp.witness_utxo = Some(utxo.clone());
        ps.add_input(inp);
        utxos.push(utxo);
        owners.push(owner);
        secrets.push(TxOutSecrets::new(asset, abf, value, vbf));
        *totals.entry((owner, asset)).or_insert(0) += value;
        an_input_of.entry((owner, asset)).or_insert(i);
    }
    // outputs: each party spends its own totals; at least one blinded output per party
    let mut outs: Vec<(Output, Option<SecretKey>, (AssetId, u64))> = Vec::new();
    let mut extra = spec.extra_outputs;
    let mut party_has_blinded = vec![false; k];
    let mut fee_taken = false;
    for ((party, asset), total) in totals.iter() {
        let mut total = *total;
        let idx = an_input_of[&(*party, *asset)] as u32;
        if spec.fee && !fee_taken && total >= 2 {
            let fee = 1 + p.below((total - 1).min(1000));
            outs.push((Output::new_explicit(Script::new(), fee, *asset, None), None, (*asset, fee)));
            total -= fee;
            fee_taken = true;
        }
        let mut parts = 1;
        while extra > 0 && (parts as u64) < total && p.coin() {
            parts += 1;
            extra -= 1;
        }
        let mut rest = total;
        for j in 0..parts {
            let v = if j + 1 == parts { rest } else { 1 + p.below(rest - (parts - j - 1) as u64) };
            rest -= v;
            let explicit = spec.explicit_outputs && party_has_blinded[*party] && p.chance(1, 2);
            if explicit {
                outs.push((Output::new_explicit(spk(&mut p), v, *asset, None), None, (*asset, v)));
            } else {
                let sk = gen::secret_key(&mut p);
                let pk = PublicKey::from_secret_key(secp, &sk);
                let mut o = Output::new_explicit(crate::worlds::ct::blindable_script(&mut p), v, *asset, Some(elements::bitcoin::PublicKey { inner: pk, compressed: true }));
                // the blinder index names the PARTY: any of its inputs will do, not only one of the same asset
                let own: Vec<u32> = (0..owners.len()).filter(|i| owners[*i] == *party).map(|i| i as u32).collect();
                o.blinder_index = Some(if p.coin() { idx } else { *p.pick(&own) });
                outs.push((o, Some(sk), (*asset, v)));
                party_has_blinded[*party] = true;
            }
        }
    }
    // now and then: a zero-value explicit output on a provably unspendable script (a data carrier, or a script longer than
    // the maximal script size) — it takes no part in the balance
    if p.chance(1, 8) {
        let spk = if p.coin() { Script::new_op_return(&p.bytes(9)) } else { let nb = 10_001 + p.usize_below(20); let mut b = p.bytes(nb); if b[0] == 0x6a { b[0] = 0x51; } Script::from(b) };
        let a = assets[0];
        outs.push((Output::new_explicit(spk, 0, a, None), None, (a, 0)));
    }
    // now and then: foreign proprietary pairs in the global map, some shaped like the pairs the map interprets (a 32-byte key
    // with an empty value under subtype 0 looks like a scalar but for its prefix): they must travel along untouched
    if p.chance(1, 4) {
        for _ in 0..p.urange(1, 3) {
            let mut k = crate::psetgen::foreign_prop_key(&mut p, 0x02);
            if p.coin() {
                // exactly the shape of a scalar entry, under a foreign prefix
                k = elements::pset::raw::ProprietaryKey { prefix: b"qset".to_vec(), subtype: 0, key: p.bytes(32) };
            }
            let n = if k.prefix != b"pset" { *p.pick(&[0usize, 0, 1, 32]) } else { p.usize_below(8) };
            ps.global.proprietary.insert(k, p.bytes(n));
        }
    }
    p.shuffle(&mut outs);
    let mut receivers = Vec::new();
    let mut originals = Vec::new();
    for (o, sk, orig) in outs {
        ps.add_output(o);
        receivers.push(sk);
        originals.push(orig);
    }
    Flow { pset: ps, utxos, owners, secrets, receivers, originals }
}

/// "fully blinded", from the definition (Elements' IsFullyBlinded): a blinding key and all five pieces of blinding data
fn fully_blinded_ref(o: &Output) -> bool {
    o.blinding_key.is_some() && o.amount_comm.is_some() && o.asset_comm.is_some() && o.value_rangeproof.is_some() && o.asset_surjection_proof.is_some() && o.ecdh_pubkey.is_some()
}

pub fn execute(case: &BlindCase, ctx: &mut Ctx) {
    let secp = secp();
    ctx.sig("blind");
    let f = build(&case.spec);
    let k = case.spec.n_parties.max(1);
    ctx.sig_n("parties", k as u64);
    ctx.sig_n("n_in", f.utxos.len() as u64);
    ctx.sig_n("n_out", f.originals.len() as u64);
    ctx.sig_n("via_from_tx", case.spec.via_from_tx as u64);
    let mut order: Vec<usize> = (0..k).collect();
    Prng::from_u64(case.order_seed).shuffle(&mut order);
    for o in &order {
        ctx.sig_n("o", *o as u64);
    }
    if k > 1 {
        ctx.nontrivial = true;
    }
    // the creator hands the PSET to the first blinder
    let mut ps = match hop(ctx, &f.pset, &case.hops.get(0).cloned().unwrap_or_else(HopPlan::perfect)) {
        Some(x) => x,
        None => {
            ctx.violate("C09.hop", "creator", "the creator's PSET could not be serialized and passed on to the first blinder".to_string());
            return;
        }
    };
    let marked: Vec<usize> = (0..f.receivers.len()).filter(|i| f.receivers[*i].is_some()).collect();
    let owner_of_output = |ps: &Pset, oi: usize| -> Option<usize> { ps.outputs()[oi].blinder_index.map(|b| f.owners[b as usize]) };
    for (pos, party) in order.iter().enumerate() {
        let last = pos + 1 == order.len();
        if case.zero_scalar_before == Some(pos) && !ps.global.scalars.contains(&gen::ZERO_TWEAK) {
            ps.global.scalars.push(gen::ZERO_TWEAK);
            ctx.fault("zero_scalar", 1);
        }
        let secrets: HashMap<usize, TxOutSecrets> = (0..f.owners.len()).filter(|i| f.owners[*i] == *party).map(|i| (i, f.secrets[i])).collect();
        let before = ps.clone();
        let attempts = if case.amnesia == Some(pos) { 2 } else { 1 };
        let mut result = None;
        for attempt in 0..attempts {
            // amnesia: the party lost its in-memory result before sending and restarts from what it last received
            let mut work = before.clone();
            if attempt > 0 {
                ctx.fault("party_amnesia", 1);
            }
            let mut plan = case.rngs.get(*party).cloned().unwrap_or(RngPlan { seed: 1, personality: Personality::Uniform });
            plan.seed = plan.seed.wrapping_add(attempt as u64);
            let mut rng = SimRng::new(&plan);
            let r = if last {
                ctx.call("Pset::blind_last", 0, || work.blind_last(&mut rng, secp, &secrets))
            } else {
                ctx.call("Pset::blind_non_last", 0, || work.blind_non_last(&mut rng, secp, &secrets))
            };
            ctx.ev(if last { "blind_last" } else { "blind_non_last" }, *party as u64);
            match r {
                None => {
                    ctx.violate("C09.step.ok", "panic", format!("party {} ({}): blinding step panicked", party, if last { "last" } else { "non-last" }));
                    return;
                }
                Some(Err(e)) => {
                    let es = format!("{:?}", e);
                    ctx.violate("C09.step.ok", &es.split('(').next().unwrap_or("err").to_string(), format!("party {} ({}): blinding step failed on an in-domain workload: {}; spec {:?}", party, if last { "last" } else { "non-last" }, es, case.spec));
                    return;
                }
                Some(Ok(_)) => result = Some(work),
            }
        }
        let after = result.expect("at least one attempt");
        if !last {
            let own_outputs = marked.iter().filter(|oi| owner_of_output(&before, **oi) == Some(*party)).count();
            if own_outputs > 0 {
                ctx.check(after.global.scalars.len() == before.global.scalars.len() + 1, "C09.step.scalar", "count", || format!("party {} (non-last, {} outputs): scalar list went from {} to {} entries", party, own_outputs, before.global.scalars.len(), after.global.scalars.len()));
            }
            for oi in 0..after.outputs().len() {
                if owner_of_output(&before, oi) != Some(*party) || f.receivers[oi].is_none() {
                    ctx.check(after.outputs()[oi] == before.outputs()[oi], "C09.step.scalar", "foreign-output", || format!("party {} changed output {} which it does not blind", party, oi));
                } else {
                    ctx.check(fully_blinded_ref(&after.outputs()[oi]), "C09.step.scalar", "own-not-blinded", || format!("party {} left its output {} not fully blinded", party, oi));
                }
            }
            if !before.global.scalars.is_empty() {
                ctx.probe("scalars_non_empty_on_arrival");
            }
        }
        // hand over (serialized) to the next party / to the verifier
        ps = match hop(ctx, &after, &case.hops.get(pos + 1).cloned().unwrap_or_else(HopPlan::perfect)) {
            Some(x) => x,
            None => {
                // "...with the PSET serialized and passed on between them": a blinder's result that the next party cannot
                // decode ends the protocol (the decode failure itself is also reported under C07)
                ctx.violate("C09.hop", if last { "after-last" } else { "after-non-last" }, format!("the PSET produced by party {} ({} scalars) could not be serialized and passed on", party, after.global.scalars.len()));
                return;
            }
        };
    }
    // ---- postconditions
    for oi in &marked {
        ctx.check(fully_blinded_ref(&ps.outputs()[*oi]), "C09.final.blinded", "not-blinded", || format!("marked output {} is not fully blinded after the last blinder", oi));
    }
    // the library's own predicates must say what the definition says, for every output of the PSET before and after
    for (which, pset) in [("creator", &f.pset), ("final", &ps)] {
        for (oi, o) in pset.outputs().iter().enumerate() {
            let partially = o.blinding_key.is_some() && (o.amount_comm.is_some() || o.asset_comm.is_some() || o.value_rangeproof.is_some() || o.asset_surjection_proof.is_some() || o.ecdh_pubkey.is_some());
            ctx.check(o.is_fully_blinded() == fully_blinded_ref(o) && o.is_partially_blinded() == partially && o.is_marked_for_blinding() == o.blinding_key.is_some(), "C09.final.blinded", "predicate", || format!("{} PSET, output {}: is_marked_for_blinding / is_partially_blinded / is_fully_blinded = {} / {} / {} disagree with the fields", which, oi, o.is_marked_for_blinding(), o.is_partially_blinded(), o.is_fully_blinded()));
        }
    }
    ctx.check(ps.global.scalars.is_empty(), "C09.final.scalars_empty", "left", || format!("{} scalars left after the last blinder", ps.global.scalars.len()));
    let tx: Transaction = match ctx.call("Pset::extract_tx", 0, || ps.extract_tx()) {
        Some(Ok(t)) => t,
        Some(Err(e)) => {
            ctx.violate("C09.final.verify", "extract", format!("extract_tx failed after blinding: {:?}", e));
            return;
        }
        None => return,
    };
    if let Some(v) = ctx.call("verify_tx_amt_proofs", 0, || tx.verify_tx_amt_proofs(secp, &f.utxos)) {
        let key = match &v {
            Ok(()) => "ok".to_string(),
            Err(e) => format!("{:?}", e).split('(').next().unwrap_or("err").to_string(),
        };
        let key = if case.spec.issuance { format!("{}|issuance|via_from_tx={}", key, case.spec.via_from_tx) } else { key };
        ctx.check(v.is_ok(), "C09.final.verify", &key, || format!("extracted transaction does not verify against the input UTXOs: {:?}; order {:?}; spec {:?}", v, order, case.spec));
    }
    for oi in &marked {
        let (asset, value) = f.originals[*oi];
        let sk = f.receivers[*oi].unwrap();
        match ctx.call("TxOut::unblind", 0, || tx.output[*oi].unblind(secp, sk)) {
            Some(Ok(s)) => {
                ctx.check(s.asset == asset && s.value == value, "C09.final.unblind", "asset-value", || format!("output {} unblinds to ({}, {}), original ({}, {})", oi, s.asset, s.value, asset, value));
            }
            Some(Err(e)) => ctx.violate("C09.final.unblind", "err", format!("output {} cannot be unblinded by its receiver: {:?}", oi, e)),
            None => {}
        }
        let o = &ps.outputs()[*oi];
        if let (Some(vp), Some(gen_), Some(comm)) = (&o.blind_value_proof, o.asset_comm, o.amount_comm) {
            let ok = ctx.call("blind_value_proof_verify", 0, || vp.blind_value_proof_verify(secp, value, gen_, comm)).unwrap_or(false);
            ctx.check(ok, "C09.final.value_proof", "invalid", || format!("output {}: stored explicit-value proof does not verify", oi));
        } else {
            ctx.violate("C09.final.value_proof", "missing", format!("output {}: explicit-value proof or commitments missing", oi));
        }
        if let (Some(ap), Some(gen_)) = (&o.blind_asset_proof, o.asset_comm) {
            let ok = ctx.call("blind_asset_proof_verify", 0, || ap.blind_asset_proof_verify(secp, asset, gen_)).unwrap_or(false);
            ctx.check(ok, "C09.final.asset_proof", "invalid", || format!("output {}: stored explicit-asset proof does not verify", oi));
        } else {
            ctx.violate("C09.final.asset_proof", "missing", format!("output {}: explicit-asset proof missing", oi));
        }
        ctx.check(o.amount == Some(value) && o.asset == Some(asset), "C09.final.blinded", "explicit-lost", || format!("output {}: explicit amount/asset fields changed by blinding", oi));
    }
    let _ = LockTime::ZERO;
}

pub fn shrink(case: &BlindCase, _v: &Violation) -> Vec<BlindCase> {
    let mut out = Vec::new();
    if case.amnesia.is_some() {
        out.push(BlindCase { amnesia: None, ..case.clone() });
    }
    if case.zero_scalar_before.is_some() {
        out.push(BlindCase { zero_scalar_before: None, ..case.clone() });
    }
    if case.hops.iter().any(|h| *h != HopPlan::perfect()) {
        out.push(BlindCase { hops: case.hops.iter().map(|_| HopPlan::perfect()).collect(), ..case.clone() });
    }
    for s in case.spec.shrinks() {
        out.push(BlindCase { spec: s, ..case.clone() });
    }
    out
}
