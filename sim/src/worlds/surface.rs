//! World `surface` (C10): the fallible public surface fed with what a medium delivers after faults
//! (mutated valid encodings and strings, truncations, extensions, random data) and with structurally
//! valid but semantically arbitrary in-memory arguments. Every call runs under catch_unwind with the
//! allocator armed; the supervisor catches aborts.

use crate::ctx::{Ctx, Violation};
use crate::gen::{self, secp, TxSpec};
use crate::prng::Prng;
use crate::psetgen::{self, PsetSpec};
use crate::runner::World;
use crate::seams::{Personality, RngPlan, SimRng};
use crate::worlds::addr::{self, AddrSpec};
use elements::address::{Address, AddressParams};
use elements::blech32::decode::{CheckedHrpstring, SegwitHrpstring, UncheckedHrpstring};
use elements::blech32::{Blech32, Blech32m};
use elements::confidential::{Asset, AssetBlindingFactor, Nonce, Value, ValueBlindingFactor};
use elements::encode;
use elements::hashes::Hash;
use elements::pset::PartiallySignedTransaction as Pset;
use elements::schnorr::SchnorrSig;
use elements::taproot::{ControlBlock, LeafVersion, TaprootBuilder, TaprootMerkleBranch, TaprootSpendInfo};
use elements::{Block, BlockHeader, Script, Transaction, TxOut, TxOutSecrets};
use serde::{Deserialize, Serialize};
use std::collections::HashMap;
use std::str::FromStr;

#[derive(Clone, Copy, Debug, Serialize, Deserialize, PartialEq, Eq)]
pub enum Surface {
    AddressText,
    Blech32Text,
    ScriptBytes,
    SliceParsers,
    TxAccessors,
    BlockAccessors,
    PsetText,
    PsetOps,
    BlindOps,
    TaprootBuilderOps,
    Commitments,
    TextParsers,
    Metadata,
    IntArgs,
}

pub const SURFACES: [Surface; 14] = [
    Surface::AddressText,
    Surface::Blech32Text,
    Surface::ScriptBytes,
    Surface::SliceParsers,
    Surface::TxAccessors,
    Surface::BlockAccessors,
    Surface::PsetText,
    Surface::PsetOps,
    Surface::BlindOps,
    Surface::TaprootBuilderOps,
    Surface::Commitments,
    Surface::TextParsers,
    Surface::Metadata,
    Surface::IntArgs,
];

#[derive(Clone, Debug, Serialize, Deserialize)]
pub struct Case {
    pub surface: Surface,
    pub seed: u64,
    /// explicit input for the string / slice surfaces (after the medium's faults); None = derive from seed
    pub text: Option<String>,
    pub bytes: Option<Vec<u8>>,
}

pub struct SurfaceWorld;

fn params(n: u64) -> &'static AddressParams {
    match n % 3 {
        0 => &AddressParams::LIQUID,
        1 => &AddressParams::ELEMENTS,
        _ => &AddressParams::LIQUID_TESTNET,
    }
}

/// faults on text in flight: substitutions, deletions, insertions, truncation, case changes, separator games
pub fn mutate_text(p: &mut Prng, s: &str) -> String {
    let mut b: Vec<u8> = s.as_bytes().to_vec();
    let n_edits = 1 + p.usize_below(3);
    for _ in 0..n_edits {
        let len = b.len();
        match p.below(12) {
            0 if len > 0 => {
                let i = p.usize_below(len);
                b[i] = *p.pick(addr::ALPHABET);
            }
            1 if len > 0 => {
                let i = p.usize_below(len);
                b[i] = 33 + p.below(94) as u8;
            }
            2 if len > 0 => {
                let i = p.usize_below(len);
                b.remove(i);
            }
            3 => {
                let i = p.usize_below(len + 1);
                b.insert(i, *p.pick(addr::ALPHABET));
            }
            4 if len > 0 => {
                let k = p.usize_below(len);
                b.truncate(k);
            }
            5 => {
                let k = p.urange(1, 40);
                for _ in 0..k {
                    b.push(*p.pick(addr::ALPHABET));
                }
            }
            6 => b = b.to_ascii_uppercase(),
            7 if len > 0 => {
                let i = p.usize_below(len);
                b[i] = b'1';
            }
            8 => {
                // keep only the human-readable part and the separator, or very short strings
                if let Some(k) = b.iter().rposition(|c| *c == b'1') {
                    b.truncate(k + 1 + p.usize_below(3));
                }
            }
            9 if len > 0 => {
                let i = p.usize_below(len);
                b[i] = *p.pick(&[0u8, 0x7f, 0x80, 0xff, b' ', b'\n']);
            }
            10 => {
                let i = p.usize_below(len + 1);
                for c in "é1".bytes() {
                    b.insert(i.min(b.len()), c);
                }
            }
            _ => b.reverse(),
        }
    }
    String::from_utf8_lossy(&b).into_owned()
}

pub fn mutate_bytes(p: &mut Prng, b: &[u8]) -> Vec<u8> {
    let d = crate::medium::draw_delivery(p, b, None);
    crate::medium::apply(b, &d)
}

fn base58_address(p: &mut Prng) -> String {
    use elements::hashes::hash160;
    let h = hash160::Hash::hash(&p.bytes(8));
    let blinder = if p.coin() { Some(*p.pick(&gen::pool().pks)) } else { None };
    let par = params(p.u64());
    if p.coin() {
        Address { params: par, payload: elements::address::Payload::PubkeyHash({ use elements::bitcoin::hashes::Hash as _; elements::bitcoin::PubkeyHash::from_byte_array(h.to_byte_array()) }), blinding_pubkey: blinder }.to_string()
    } else {
        Address { params: par, payload: elements::address::Payload::ScriptHash(elements::ScriptHash::from_byte_array(h.to_byte_array())), blinding_pubkey: blinder }.to_string()
    }
}

/// A string with a VALID checksum of one of the four variants over an arbitrary (possibly empty, odd-sized)
/// payload: passes the checksum gate and reaches the code behind it.
fn checksummed_text(p: &mut Prng) -> String {
    use bech32::primitives::iter::Fe32IterExt;
    use bech32::{Bech32, Bech32m, Fe32, Hrp};
    let hrp_s: String = match p.below(8) {
        0 => "lq".into(),
        1 => "el".into(),
        2 => "tlq".into(),
        3 => "ex".into(),
        4 => "ert".into(),
        5 => "tex".into(),
        _ => {
            let n = p.urange(1, 6);
            (0..n).map(|_| (b'a' + p.below(26) as u8) as char).collect()
        }
    };
    let hrp = Hrp::parse(&hrp_s).expect("valid hrp");
    let n = match p.below(6) {
        0 => 0,
        1 => 1,
        2 => p.usize_below(5),
        3 => p.usize_below(60),
        _ => p.usize_below(120),
    };
    let fes: Vec<Fe32> = (0..n).map(|_| Fe32::try_from(p.below(32) as u8).expect("< 32")).collect();
    let s: String = match p.below(4) {
        0 => fes.into_iter().with_checksum::<Bech32>(&hrp).chars().collect(),
        1 => fes.into_iter().with_checksum::<Bech32m>(&hrp).chars().collect(),
        2 => fes.into_iter().with_checksum::<Blech32>(&hrp).chars().collect(),
        _ => fes.into_iter().with_checksum::<Blech32m>(&hrp).chars().collect(),
    };
    if p.chance(1, 6) {
        s.to_ascii_uppercase()
    } else {
        s
    }
}

fn draw_text(p: &mut Prng, surface: Surface) -> String {
    if matches!(surface, Surface::AddressText | Surface::Blech32Text) && p.chance(1, 4) {
        return checksummed_text(p);
    }
    let valid = match surface {
        Surface::AddressText | Surface::Blech32Text => {
            if surface == Surface::AddressText && p.chance(1, 3) {
                base58_address(p)
            } else {
                addr::build(&addr::draw_spec(p))
            }
        }
        Surface::PsetText => {
            let mut s = PsetSpec::draw(p);
            s.n_in = s.n_in.min(2);
            s.n_out = s.n_out.min(2);
            s.utxos = false;
            s.at_count_limit = 0;
            let n = p.u32();
            match crate::corpus::nth(crate::corpus::Kind::Pset, n) {
                // one in six: a real PSET of the repository's vectors (the smaller ones), as base64 text
                Some(i) if p.chance(1, 6) && crate::corpus::get().bytes(i).len() < 20_000 => {
                    use elements::bitcoin::base64::{engine::general_purpose::STANDARD, Engine as _};
                    STANDARD.encode(crate::corpus::get().bytes(i))
                }
                _ => psetgen::pset(&s).to_string(),
            }
        }
        _ => String::new(),
    };
    match p.below(10) {
        0 => valid,
        1 => {
            let n = p.usize_below(12);
            (0..n).map(|_| (33 + p.below(94) as u8) as char).collect()
        }
        2 => {
            // tiny strings around the separator: "a1", "1", "", "a1q", ...
            (*p.pick(&["", "1", "a1", "A1", "a1q", "lq1", "ex1", "el1q", "tlq1qq", "11", "a11", "ert1"])).to_string()
        }
        _ => mutate_text(p, &valid),
    }
}

fn spec_small(p: &mut Prng) -> TxSpec {
    let mut s = TxSpec::draw_with_corpus(p, 4, 4, 5);
    s.max_blob = s.max_blob.min(300);
    s
}

impl SurfaceWorld {
    fn address_text(&self, ctx: &mut Ctx, s: &str) {
        let n = s.len();
        if let Some(Ok(a)) = ctx.call("Address::from_str", n, || Address::from_str(s)) {
            ctx.probe("address_parsed");
            ctx.call("Address::script_pubkey", n, || a.script_pubkey());
            ctx.call("Address::to_string", n, || a.to_string());
            ctx.call("Address::to_unconfidential", n, || a.to_unconfidential());
        }
        for k in 0..3 {
            ctx.call("Address::parse_with_params", n, || Address::parse_with_params(s, params(k)).is_ok());
        }
    }
    fn blech32_text(&self, ctx: &mut Ctx, s: &str) {
        let n = s.len();
        if let Some(Ok(u)) = ctx.call("UncheckedHrpstring::new", n, || UncheckedHrpstring::new(s)) {
            ctx.call("UncheckedHrpstring::has_valid_checksum<Blech32>", n, || u.has_valid_checksum::<Blech32>());
            ctx.call("UncheckedHrpstring::validate_checksum<Blech32m>", n, || u.validate_checksum::<Blech32m>().is_ok());
            ctx.call("UncheckedHrpstring::hrp", n, || u.hrp());
        }
        if let Some(Ok(c)) = ctx.call("CheckedHrpstring::new<Blech32>", n, || CheckedHrpstring::new::<Blech32>(s)) {
            ctx.probe("blech32_checked");
            ctx.call("CheckedHrpstring::byte_iter", n, || c.byte_iter().count());
            ctx.call("CheckedHrpstring::validate_segwit", n, || c.validate_segwit().is_ok());
        }
        if let Some(Ok(c)) = ctx.call("CheckedHrpstring::new<Blech32m>", n, || CheckedHrpstring::new::<Blech32m>(s)) {
            ctx.call("CheckedHrpstring::validate_segwit", n, || c.validate_segwit().is_ok());
        }
        if let Some(Ok(sw)) = ctx.call("SegwitHrpstring::new", n, || SegwitHrpstring::new(s)) {
            ctx.probe("blech32_segwit");
            ctx.call("SegwitHrpstring::byte_iter", n, || sw.byte_iter().count());
            ctx.call("SegwitHrpstring::witness_version", n, || sw.witness_version());
            ctx.call("SegwitHrpstring::has_valid_hrp", n, || sw.has_valid_hrp());
        }
        ctx.call("SegwitHrpstring::new_bech32", n, || SegwitHrpstring::new_bech32(s).is_ok());
    }
    fn script_bytes(&self, ctx: &mut Ctx, b: &[u8]) {
        let n = b.len();
        let s = Script::from(b.to_vec());
        ctx.call("Script::instructions", n, || s.instructions().map(|i| i.is_ok()).filter(|x| *x).count());
        ctx.call("Script::instructions_minimal", n, || s.instructions_minimal().map(|i| i.is_ok()).filter(|x| *x).count());
        ctx.call("Script::asm", n, || s.asm().len());
        ctx.call("Script::to_string", n, || format!("{} {:?} {:x}", s, s, s).len());
        ctx.call("Script::predicates", n, || (s.is_p2sh(), s.is_p2pkh(), s.is_p2pk(), s.is_witness_program(), s.is_v0_p2wsh(), s.is_v0_p2wpkh(), s.is_v1_p2tr(), s.is_v1plus_p2witprog(), s.is_op_return(), s.is_provably_unspendable()));
        ctx.call("Address::from_script", n, || Address::from_script(&s, None, &AddressParams::ELEMENTS).map(|a| a.to_string()));
        ctx.call("Script::to_p2sh", n, || (s.to_p2sh(), s.to_v0_p2wsh(), s.script_hash(), s.wscript_hash()));
        let o = TxOut { script_pubkey: s.clone(), value: Value::Explicit(5), asset: Asset::Explicit(gen::asset_id(&mut Prng::from_u64(1))), ..Default::default() };
        ctx.call("TxOut::pegout_data", n, || o.pegout_data().map(|d| d.extra_data.len()));
        ctx.call("TxOut::is_null_data", n, || (o.is_null_data(), o.is_pegout(), o.is_fee(), o.minimum_value()));
        ctx.call("read_scriptint", n, || elements::script::read_scriptint(b).is_ok());
        for size in [0usize, 1, 2, 4, 8, 9, n, n + 1] {
            ctx.call("read_uint", n, || elements::script::read_uint(b, size).is_ok());
        }
        ctx.call("read_scriptbool", n, || elements::script::read_scriptbool(b));
    }
    fn slice_parsers(&self, ctx: &mut Ctx, b: &[u8]) {
        let n = b.len();
        if let Some(Ok(cb)) = ctx.call("ControlBlock::from_slice", n, || ControlBlock::from_slice(b)) {
            ctx.probe("control_block_parsed");
            ctx.call("ControlBlock::serialize", n, || cb.serialize().len());
            ctx.call("ControlBlock::size", n, || cb.size());
        }
        ctx.call("TaprootMerkleBranch::from_slice", n, || TaprootMerkleBranch::from_slice(b).map(|m| m.serialize().len()).is_ok());
        ctx.call("SchnorrSig::from_slice", n, || SchnorrSig::from_slice(b).map(|s| s.to_vec().len()).is_ok());
        ctx.call("LeafVersion::from_u8", n, || b.first().map(|x| LeafVersion::from_u8(*x).is_ok()));
        ctx.call("RangeProof::from_slice", n, || elements::secp256k1_zkp::RangeProof::from_slice(b).is_ok());
        ctx.call("SurjectionProof::from_slice", n, || elements::secp256k1_zkp::SurjectionProof::from_slice(b).is_ok());
    }
    fn commitments(&self, ctx: &mut Ctx, b: &[u8]) {
        let n = b.len();
        ctx.call("Value::from_commitment", n, || Value::from_commitment(b).is_ok());
        ctx.call("Asset::from_commitment", n, || Asset::from_commitment(b).is_ok());
        ctx.call("Nonce::from_commitment", n, || Nonce::from_commitment(b).is_ok());
        ctx.call("AssetBlindingFactor::from_slice", n, || AssetBlindingFactor::from_slice(b).is_ok());
        ctx.call("ValueBlindingFactor::from_slice", n, || ValueBlindingFactor::from_slice(b).is_ok());
        ctx.call("deserialize<Value>", n, || encode::deserialize::<Value>(b).is_ok());
        ctx.call("deserialize<Asset>", n, || encode::deserialize::<Asset>(b).is_ok());
        ctx.call("deserialize<Nonce>", n, || encode::deserialize::<Nonce>(b).is_ok());
        if b.len() >= 64 {
            let mut arr = [0u8; 64];
            arr.copy_from_slice(&b[..64]);
            let g = *Prng::from_u64(n as u64).pick(&gen::pool().gens);
            ctx.call("RangeProofMessage::from_byte_array", n, || elements::RangeProofMessage::from_byte_array(secp(), arr, &Asset::Confidential(g)).is_ok());
        }
    }
    fn tx_accessors(&self, ctx: &mut Ctx, b: &[u8]) {
        let n = b.len();
        let Some(Ok(tx)) = ctx.call("deserialize<Transaction>", n, || encode::deserialize::<Transaction>(b)) else { return };
        ctx.probe("tx_decoded");
        ctx.call("Transaction::ids", n, || (tx.txid(), tx.wtxid(), tx.is_coinbase(), tx.has_witness()));
        ctx.call("Transaction::sizes", n, || (tx.size(), tx.weight(), tx.vsize(), tx.discount_weight(), tx.discount_vsize()));
        ctx.call("Transaction::all_fees", n, || tx.all_fees().len());
        for i in &tx.input {
            ctx.call("TxIn::pegin_data", n, || i.pegin_data().map(|d| (d.parse_tx().is_ok(), d.parse_merkle_proof().is_ok(), d.to_pegin_witness().len())));
            ctx.call("TxIn::accessors", n, || (i.pegin_prevout(), i.is_coinbase(), i.is_pegin(), i.has_issuance(), i.outpoint_flag(), i.issuance_ids()));
        }
        for o in &tx.output {
            ctx.call("TxOut::accessors", n, || (o.pegout_data().is_some(), o.minimum_value(), o.is_fee(), o.is_null_data(), o.is_pegout(), o.is_partially_blinded()));
            let sk = gen::secret_key(&mut Prng::from_u64(n as u64));
            ctx.call("TxOut::unblind", n, || o.unblind(secp(), sk).is_ok());
        }
        // arbitrary spent-output lists
        let spent: Vec<TxOut> = gen::prevouts(n as u64, tx.input.len(), true);
        ctx.call("verify_tx_amt_proofs", n, || tx.verify_tx_amt_proofs(secp(), &spent).is_ok());
        ctx.call("verify_tx_amt_proofs", n, || tx.verify_tx_amt_proofs(secp(), &[]).is_ok());
        let ps = ctx.call("Pset::from_tx", n, || Pset::from_tx(tx.clone()));
        if let Some(ps) = ps {
            ctx.call("Pset::extract_tx", n, || ps.extract_tx().is_ok());
            ctx.call("Pset::unique_id", n, || ps.unique_id().is_ok());
        }
    }
    fn block_accessors(&self, ctx: &mut Ctx, b: &[u8]) {
        let n = b.len();
        if let Some(Ok(blk)) = ctx.call("deserialize<Block>", n, || encode::deserialize::<Block>(b)) {
            ctx.probe("block_decoded");
            ctx.call("Block::accessors", n, || (blk.block_hash(), blk.size(), blk.weight()));
        }
        if let Some(Ok((h, _))) = ctx.call("deserialize_partial<BlockHeader>", n, || encode::deserialize_partial::<BlockHeader>(b)) {
            ctx.call("BlockHeader::accessors", n, || (h.block_hash(), h.is_dynafed(), h.calculate_dynafed_params_root(), h.dynafed_current().map(|p| (p.calculate_root(), p.is_null(), p.is_compact(), p.is_full(), p.elided_root().copied(), p.clone().into_compact().is_some()))));
            let mut h2 = h.clone();
            ctx.call("BlockHeader::clear_witness", n, || h2.clear_witness());
            for par in [h.dynafed_current(), h.dynafed_proposed()].into_iter().flatten() {
                ctx.call("Params::accessors", n, || (par.fedpeg_program().map(|s| s.len()), par.fedpegscript().map(|s| s.len()), par.extension_space().map(|s| s.len()), par.full().is_some(), par.signblockscript().map(|s| s.len()), par.signblock_witness_limit(), par.elided_root().is_some()));
                let (p1, p2) = (par.clone(), par.clone());
                ctx.call("Params::into_full", n, || p1.into_full().map(|f| f.into_compact().calculate_root()));
                ctx.call("Params::into_compact", n, || p2.into_compact().map(|c| c.calculate_root()));
            }
        }
    }
    fn pset_text(&self, ctx: &mut Ctx, s: &str) {
        let n = s.len();
        if let Some(Ok(ps)) = ctx.call("Pset::from_str", n, || Pset::from_str(s)) {
            ctx.probe("pset_text_parsed");
            self.pset_accessors(ctx, &ps, n);
        }
    }
    fn pset_accessors(&self, ctx: &mut Ctx, ps: &Pset, n: usize) {
        ctx.call("Pset::locktime", n, || ps.locktime().is_ok());
        ctx.call("Pset::unique_id", n, || ps.unique_id().is_ok());
        ctx.call("Pset::extract_tx", n, || ps.extract_tx().is_ok());
        ctx.call("Pset::sanity_check", n, || ps.sanity_check().is_ok());
        ctx.call("Pset::to_string", n, || ps.to_string().len());
        ctx.call("Pset::surjection_inputs", n, || ps.surjection_inputs(&HashMap::new()).is_ok());
        for i in ps.inputs() {
            ctx.call("Input::accessors", n, || (i.issuance_ids(), i.has_issuance(), i.is_pegin(), i.asset_issuance(), i.ecdsa_hash_ty(), i.schnorr_hash_ty(), i.get_abf().map(|r| r.is_ok())));
        }
        for o in ps.outputs() {
            ctx.call("Output::accessors", n, || (o.to_txout(), o.is_marked_for_blinding(), o.is_partially_blinded(), o.is_fully_blinded(), o.get_abf().map(|r| r.is_ok())));
        }
        let a = gen::asset_id(&mut Prng::from_u64(n as u64));
        ctx.call("Pset::get_asset_metadata", n, || (ps.get_asset_metadata(a).map(|r| r.is_ok()), ps.get_token_metadata(a).map(|r| r.is_ok())));
    }
    fn pset_ops(&self, ctx: &mut Ctx, seed: u64) {
        let mut p = Prng::from_u64(seed);
        let mut sa = PsetSpec::draw_with_corpus(&mut p, 6);
        sa.at_count_limit = 0;
        sa.utxos = p.coin();
        let a = psetgen::pset(&sa);
        self.pset_accessors(ctx, &a, 0);
        // merge with an unrelated, a related and an identical PSET
        let mut sb = if p.coin() { sa.clone() } else { PsetSpec::draw(&mut p) };
        sb.at_count_limit = 0;
        if p.coin() {
            sb.seed = sa.seed;
        }
        if p.chance(1, 3) {
            sb.extras = !sb.extras;
            sb.bip174 = !sb.bip174;
        }
        let b = psetgen::pset(&sb);
        let mut m = a.clone();
        let b2 = b.clone();
        ctx.call("Pset::merge", 0, || m.merge(b2).is_ok());
        // same transaction, conflicting optional fields (no assertion on the outcome except totality)
        let mut c = a.clone();
        for i in c.inputs_mut() {
            i.sequence = Some(gen::sequence(&mut p));
            i.final_script_sig = Some(gen::script(&mut p, 20));
            i.sighash_type = None;
        }
        let ks = psetgen::key_source(&mut p, 6);
        for (_, v) in c.global.xpub.iter_mut() {
            if p.coin() {
                *v = ks.clone();
            }
        }
        let mut m = a.clone();
        ctx.call("Pset::merge", 0, || m.merge(c).is_ok());
        // structural edits
        let mut e = a.clone();
        ctx.call("Pset::remove_input", 0, || e.remove_input(p.usize_below(4)).is_some());
        ctx.call("Pset::remove_output", 0, || e.remove_output(p.usize_below(4)).is_some());
        ctx.call("Pset::n_inputs", 0, || (e.n_inputs(), e.n_outputs(), e.sanity_check().is_ok()));
        ctx.call("Pset::extract_tx", 0, || e.extract_tx().is_ok());
        // blinding with arbitrary secrets: keys out of range, blinder index out of range, nothing marked
        let mut secrets: HashMap<usize, TxOutSecrets> = HashMap::new();
        for _ in 0..p.usize_below(4) {
            secrets.insert(p.usize_below(8), TxOutSecrets::new(gen::asset_id(&mut p), gen::abf(&mut p), p.u64(), gen::vbf(&mut p)));
        }
        let mut w = a.clone();
        if p.coin() {
            for o in w.outputs_mut() {
                if p.coin() {
                    o.blinder_index = Some(if p.coin() { p.u32() } else { p.below(4) as u32 });
                    o.blinding_key = Some(psetgen::btc_pubkey(&mut p));
                }
                if p.coin() {
                    o.amount = None;
                }
                if p.chance(1, 4) {
                    o.asset = None;
                }
            }
        }
        if p.coin() {
            for i in w.inputs_mut() {
                if p.coin() {
                    i.witness_utxo = None;
                }
                i.blinded_issuance = if p.coin() { Some(0) } else { None };
            }
        }
        let mut rng = SimRng::new(&RngPlan { seed, personality: Personality::Uniform });
        let mut w1 = w.clone();
        ctx.call("Pset::blind_non_last", 0, || w1.blind_non_last(&mut rng, secp(), &secrets).is_ok());
        let mut w2 = w.clone();
        ctx.call("Pset::blind_last", 0, || w2.blind_last(&mut rng, secp(), &secrets).is_ok());
        ctx.call("Pset::surjection_inputs", 0, || w.surjection_inputs(&secrets).is_ok());
    }
    fn blind_ops(&self, ctx: &mut Ctx, seed: u64) {
        let mut p = Prng::from_u64(seed);
        // structurally valid, semantically arbitrary transaction and secrets
        let mut tx = gen::tx(&spec_small(&mut p));
        let mode = p.below(4);
        if mode >= 1 {
            // all explicit, so the call gets past the first gate; 0..n outputs carry a blinding key
            for o in &mut tx.output {
                o.asset = Asset::Explicit(gen::asset_id(&mut p));
                o.value = Value::Explicit(if p.chance(1, 5) { 0 } else { 1 + p.below(1 << 40) });
                o.nonce = if mode == 1 || p.coin() { Nonce::Null } else { Nonce::Confidential(*p.pick(&gen::pool().pks)) };
                if p.coin() {
                    let mut v = vec![0x00, 0x14];
                    v.extend(p.bytes(20));
                    o.script_pubkey = Script::from(v);
                }
            }
        }
        let n_sec = if p.coin() { tx.input.len() } else { p.usize_below(5) };
        let secrets: Vec<TxOutSecrets> = (0..n_sec).map(|_| TxOutSecrets::new(gen::asset_id(&mut p), if p.coin() { AssetBlindingFactor::zero() } else { gen::abf(&mut p) }, p.u64() >> p.below(64), if p.coin() { ValueBlindingFactor::zero() } else { gen::vbf(&mut p) })).collect();
        let mut rng = SimRng::new(&RngPlan { seed, personality: Personality::Uniform });
        let blind_issuances = p.coin();
        let mut t2 = tx.clone();
        ctx.call("Transaction::blind", 0, || t2.blind(&mut rng, secp(), &secrets, blind_issuances).is_ok());
        for i in tx.input.iter_mut().take(2) {
            let mut i2 = i.clone();
            ctx.call("TxIn::blind_issuances", 0, || i2.blind_issuances(secp(), &mut rng).is_ok());
        }
        if let Some(o) = tx.output.first() {
            ctx.call("TxOut::to_non_last_confidential", 0, || o.to_non_last_confidential(&mut rng, secp(), *p.pick(&gen::pool().pks), &secrets).is_ok());
        }
        {
            use elements::SurjectionInput;
            let dom: Vec<SurjectionInput> = (0..p.usize_below(5))
                .map(|_| match p.below(4) {
                    0 => SurjectionInput::Unknown(Asset::Null),
                    1 => SurjectionInput::Unknown(gen::asset(&mut p, gen::Conf::Confidential)),
                    2 => SurjectionInput::Unknown(gen::asset(&mut p, gen::Conf::Explicit)),
                    _ => SurjectionInput::Known { asset: gen::asset_id(&mut p), asset_bf: if p.coin() { AssetBlindingFactor::zero() } else { gen::abf(&mut p) } },
                })
                .collect();
            for d in &dom {
                ctx.call("SurjectionInput::surjection_target", 0, || d.surjection_target(secp()).is_ok());
            }
            let a = gen::asset_id(&mut p);
            let v = p.u64() >> p.below(64);
            let pk = *p.pick(&gen::pool().pks);
            let spk = gen::script(&mut p, 40);
            let os = TxOutSecrets::new(a, if p.coin() { AssetBlindingFactor::zero() } else { gen::abf(&mut p) }, v, if p.coin() { ValueBlindingFactor::zero() } else { gen::vbf(&mut p) });
            let esk = gen::secret_key(&mut p);
            ctx.call("TxOut::with_txout_secrets", 0, || TxOut::with_txout_secrets(&mut rng, secp(), spk.clone(), pk, esk, os, &dom).is_ok());
            let addr = Address { params: params(p.u64()), payload: elements::address::Payload::ScriptHash(elements::ScriptHash::from_byte_array([3u8; 20])), blinding_pubkey: if p.chance(3, 4) { Some(pk) } else { None } };
            ctx.call("TxOut::new_not_last_confidential", 0, || TxOut::new_not_last_confidential(&mut rng, secp(), v, &addr, a, &dom).is_ok());
            let refs: Vec<&TxOutSecrets> = secrets.iter().rev().collect();
            ctx.call("TxOut::with_secrets_last", 0, || TxOut::with_secrets_last(&mut rng, secp(), v, spk.clone(), pk, a, esk, gen::abf(&mut Prng::from_u64(seed)), &secrets, &refs).is_ok());
            ctx.call("Asset::blind", 0, || Asset::Explicit(a).blind(&mut rng, secp(), gen::abf(&mut Prng::from_u64(seed)), &dom).is_ok());
            ctx.call("Asset::into_asset_gen", 0, || (Asset::Null.into_asset_gen(secp()).is_some(), Asset::Explicit(a).into_asset_gen(secp()).is_some()));
            ctx.call("Nonce::shared_secret", 0, || (Nonce::Null.shared_secret(&esk).is_some(), Nonce::Confidential(pk).shared_secret(&esk).is_some(), Nonce::Explicit([1u8; 32]).shared_secret(&esk).is_some()));
            for i in tx.input.iter().take(2) {
                let mut i2 = i.clone();
                let (v1, v2) = (if p.coin() { ValueBlindingFactor::zero() } else { gen::vbf(&mut p) }, gen::vbf(&mut p));
                ctx.call("TxIn::blind_issuances_with_bfs", 0, || i2.blind_issuances_with_bfs(secp(), v1, v2, esk, esk).is_ok());
            }
        }
        {
            // an output whose range proof REWINDS for the receiver but was made with parameters this library never uses
            // (exact value, one bit, other exponents) and a message of any length: unblind must answer, not panic
            use elements::secp256k1_zkp::{Generator, PedersenCommitment, RangeProof, Tag};
            let (rsk, esk) = (gen::secret_key(&mut p), gen::secret_key(&mut p));
            let rpk = elements::secp256k1_zkp::PublicKey::from_secret_key(secp(), &rsk);
            let (nonce, shared) = Nonce::with_ephemeral_sk(secp(), esk, &rpk);
            let aid = gen::asset_id(&mut p);
            let abf = gen::abf(&mut p);
            let g = Generator::new_blinded(secp(), aid.into_tag(), abf.into_inner());
            let vbf = gen::vbf(&mut p);
            let value = 1 + p.below(1 << 40);
            let comm = PedersenCommitment::new(secp(), value, vbf.into_inner(), g);
            let (min_value, exp, min_bits) = match p.below(5) {
                0 => (value, -1, 0),
                1 => (value - 1, 0, 1),
                2 => (1, p.below(4) as i32, p.below(40) as u8),
                3 => (0, 0, 52),
                _ => (1, 0, 52),
            };
            let msg = match p.below(4) {
                0 => Vec::new(),
                1 => { let n = p.usize_below(64); p.bytes(n) }
                2 => elements::RangeProofMessage::new(aid, abf).to_byte_array().to_vec(),
                _ => { let n = 64 + p.usize_below(64); p.bytes(n) }
            };
            let spk = gen::script(&mut p, 40);
            if let Ok(rp) = RangeProof::new(secp(), min_value, comm, value, vbf.into_inner(), &msg, spk.as_bytes(), shared, exp, min_bits, g) {
                ctx.probe("crafted_rangeproof");
                let o = TxOut { asset: Asset::Confidential(g), value: Value::Confidential(comm), nonce, script_pubkey: spk, witness: elements::TxOutWitness { surjection_proof: None, rangeproof: Some(Box::new(rp)) } };
                if let Some(r) = ctx.call("TxOut::unblind", 0, || o.unblind(secp(), rsk).map(|s| s.value)) {
                    if r.is_ok() {
                        ctx.probe("crafted_rangeproof_unblinded");
                    }
                }
                ctx.call("TxOut::minimum_value", 0, || o.minimum_value());
            }
        }
        let a = gen::asset_id(&mut p);
        ctx.call("TxOut::new_last_confidential", 0, || {
            let refs: Vec<&TxOutSecrets> = secrets.iter().collect();
            TxOut::new_last_confidential(&mut rng, secp(), p.u64() >> 3, a, gen::script(&mut Prng::from_u64(seed), 30), *Prng::from_u64(seed).pick(&gen::pool().pks), &secrets, &refs).is_ok()
        });
    }
    fn taproot_builder_ops(&self, ctx: &mut Ctx, seed: u64) {
        let mut p = Prng::from_u64(seed);
        let key = psetgen::xonly(&mut p);
        let mut b = Some(TaprootBuilder::new());
        let n = p.usize_below(12);
        for _ in 0..n {
            let Some(cur) = b.take() else { break };
            let depth = match p.below(6) {
                0 => 0,
                1 => 127 + p.usize_below(4),
                2 => usize::MAX - p.usize_below(2),
                _ => p.usize_below(5),
            };
            let r = if p.chance(1, 4) {
                ctx.call("TaprootBuilder::add_hidden", 0, || cur.add_hidden(depth, elements::taproot::TapNodeHash::from_byte_array([7u8; 32])))
            } else {
                let s = gen::script(&mut p, 20);
                let v = psetgen::leaf_version(&mut p);
                ctx.call("TaprootBuilder::add_leaf_with_ver", 0, || cur.add_leaf_with_ver(depth, s, v))
            };
            match r {
                Some(Ok(nb)) => b = Some(nb),
                _ => break,
            }
        }
        if let Some(cur) = b {
            ctx.call("TaprootBuilder::is_complete", 0, || cur.is_complete());
            let c2 = cur.clone();
            ctx.call("TapTree::from_inner", 0, || elements::pset::TapTree::from_inner(c2).is_ok());
            if let Some(Ok(info)) = ctx.call("TaprootBuilder::finalize", 0, || cur.finalize(secp(), key)) {
                ctx.probe("taproot_finalized");
                ctx.call("TaprootSpendInfo::accessors", 0, || (info.merkle_root(), info.output_key(), info.tap_tweak(), info.as_script_map().len()));
                let probe = (gen::script(&mut p, 20), LeafVersion::default());
                ctx.call("TaprootSpendInfo::control_block", 0, || info.control_block(&probe).is_some());
            }
        }
        // NodeInfo::combine on a leaf whose merkle branch is already as long as the format allows (and beyond)
        {
            use elements::taproot::{NodeInfo, TapNodeHash};
            let mut node = Some(NodeInfo::new_leaf_with_ver(gen::script(&mut p, 10), LeafVersion::default()));
            let levels = *p.pick(&[3usize, 127, 128, 129, 131]);
            for lvl in 0..levels {
                let Some(cur) = node.take() else { break };
                let h = NodeInfo::new_hidden(TapNodeHash::from_byte_array(p.arr32()));
                let first = p.coin();
                let r = ctx.call("NodeInfo::combine", 0, || if first { NodeInfo::combine(cur, h) } else { NodeInfo::combine(h, cur) });
                match r {
                    Some(Ok(n)) => node = Some(n),
                    Some(Err(_)) => {
                        ctx.sig_n("combine_refused_at", lvl as u64);
                        break;
                    }
                    None => break,
                }
            }
        }
        // Huffman builder with arbitrary weights (including zero and maximal ones, and many leaves)
        let k = match p.below(4) {
            0 => 0,
            1 => p.usize_below(4),
            2 => p.usize_below(40),
            _ => 140,
        };
        let weights: Vec<(u32, Script)> = (0..k).map(|j| (if k == 140 { 1u32.checked_shl(j as u32 % 32).unwrap_or(1) } else { *p.pick(&[0u32, 1, 2, 1000, u32::MAX]) }, gen::script(&mut p, 10))).collect();
        ctx.call("TaprootSpendInfo::with_huffman_tree", 0, || TaprootSpendInfo::with_huffman_tree(secp(), key, weights).is_ok());
    }
    fn text_parsers(&self, ctx: &mut Ctx, s: &str) {
        let n = s.len();
        ctx.call("OutPoint::from_str", n, || elements::OutPoint::from_str(s).is_ok());
        ctx.call("AssetId::from_str", n, || elements::AssetId::from_str(s).is_ok());
        ctx.call("Txid::from_str", n, || elements::Txid::from_str(s).is_ok());
        ctx.call("AssetBlindingFactor::from_str", n, || AssetBlindingFactor::from_str(s).is_ok());
        ctx.call("ValueBlindingFactor::from_str", n, || ValueBlindingFactor::from_str(s).is_ok());
        ctx.call("LockTime::from_str", n, || elements::LockTime::from_str(s).is_ok());
        ctx.call("Sequence::from_str", n, || elements::Sequence::from_str(s).is_ok());
        ctx.call("EcdsaSighashType::from_str", n, || elements::EcdsaSighashType::from_str(s).is_ok());
        ctx.call("SchnorrSighashType::from_str", n, || elements::SchnorrSighashType::from_str(s).is_ok());
        ctx.call("PsbtSighashType::from_str", n, || elements::pset::PsbtSighashType::from_str(s).is_ok());
        ctx.call("Script::from_hex", n, || (Script::from_hex(s).is_ok(), Script::from_hex_no_prefix(s).is_ok()));
        ctx.call("ContractHash::from_json_contract", n, || elements::ContractHash::from_json_contract(s).is_ok());
    }
    /// fallible constructors that take plain integers, and the raw PSET key helpers
    fn int_args(&self, ctx: &mut Ctx, seed: u64) {
        use elements::locktime::{Height, Time};
        use elements::{LockTime, Sequence};
        let mut p = Prng::from_u64(seed);
        let edge = [0u32, 1, 511, 512, 513, 0xffff, 0x10000, 33_553_920, 33_553_921, 33_554_431, 33_554_432, 499_999_999, 500_000_000, 500_000_001, 0x7fff_ffff, 0x8000_0000, u32::MAX - 511, u32::MAX - 1, u32::MAX];
        for _ in 0..4 {
            let n = if p.coin() { *p.pick(&edge) } else { p.u32() };
            ctx.call("Sequence::from_seconds_floor", 0, || Sequence::from_seconds_floor(n).is_ok());
            ctx.call("Sequence::from_seconds_ceil", 0, || Sequence::from_seconds_ceil(n).is_ok());
            ctx.call("Sequence::from_512_second_intervals", 0, || Sequence::from_512_second_intervals(n as u16).to_consensus_u32());
            ctx.call("Sequence::from_height", 0, || Sequence::from_height(n as u16).to_consensus_u32());
            ctx.call("Sequence::predicates", 0, || { let s = Sequence::from_consensus(n); (s.is_final(), s.is_rbf(), s.is_relative_lock_time(), s.is_height_locked(), s.is_time_locked(), s.enables_absolute_lock_time()) });
            ctx.call("LockTime::from_height", 0, || LockTime::from_height(n).is_ok());
            ctx.call("LockTime::from_time", 0, || LockTime::from_time(n).is_ok());
            ctx.call("LockTime::from_consensus", 0, || { let l = LockTime::from_consensus(n); (l.is_block_height(), l.is_block_time(), l.to_consensus_u32(), l.to_string().len()) });
            ctx.call("Height::from_consensus", 0, || Height::from_consensus(n).map(|h| h.to_consensus_u32()).is_ok());
            ctx.call("Time::from_consensus", 0, || Time::from_consensus(n).map(|h| h.to_consensus_u32()).is_ok());
            let s = if p.coin() { n.to_string() } else { format!("{}{}", n, p.below(100_000)) };
            ctx.call("Height::from_str", s.len(), || (Height::from_str(&s).is_ok(), Time::from_str(&s).is_ok(), Height::try_from(s.as_str()).is_ok(), Time::try_from(s.clone()).is_ok()));
            let m = if p.coin() { *p.pick(&edge) } else { p.u32() };
            ctx.call("LockTime::is_satisfied_by", 0, || { let (a, b) = (LockTime::from_consensus(n), LockTime::from_consensus(m)); (a.is_same_unit(b), a.is_satisfied_by(Height::from_consensus(m % 500_000_000).unwrap(), Time::from_consensus(500_000_000 + m % 1_000_000).unwrap()), a.partial_cmp(&b).is_some()) });
            let b = p.u8();
            ctx.call("opcodes::All::classify", 0, || { let o = elements::opcodes::All::from(b); (format!("{:?}", o).len(), elements::opcodes::Ordinary::try_from_all(o).is_some(), o.classify(elements::opcodes::ClassifyContext::Legacy)) });
            // (All::classify in the TapScript context panics for OP_CHECKSIGADD and the Elements tapscript opcodes 0xc0, 0xc4..0xe4; it
            // does not report failure through Result/Option and no fallible API reaches it, so it is outside C10: DESIGN 11.6)
            ctx.call("LeafVersion::from_u8", 0, || LeafVersion::from_u8(b).map(|v| v.as_u8()).is_ok());
            ctx.call("SchnorrSighashType::from_u8", 0, || (elements::SchnorrSighashType::from_u8(b).is_some(), elements::EcdsaSighashType::from_standard(n).is_ok(), elements::EcdsaSighashType::from_u32(n).as_u32()));
        }
        // raw PSET keys
        use elements::pset::raw;
        let key = raw::Key { type_value: if p.coin() { 0xFC } else { p.u8() }, key: { let n = p.usize_below(40); let mut k = p.bytes(n); if p.coin() && !k.is_empty() { k[0] = (k.len() - 1).min(4) as u8; } k } };
        ctx.call("ProprietaryKey::from_key", key.key.len(), || raw::ProprietaryKey::<raw::ProprietaryType>::from_key(&key).map(|k| k.to_key().key.len()).is_ok());
    }
    fn metadata(&self, ctx: &mut Ctx, b: &[u8]) {
        use elements::pset::elip100::{AssetMetadata, TokenMetadata};
        let n = b.len();
        ctx.call("AssetMetadata::deserialize", n, || AssetMetadata::deserialize(b).map(|m| m.serialize().len()).is_ok());
        ctx.call("TokenMetadata::deserialize", n, || TokenMetadata::deserialize(b).map(|m| m.serialize().len()).is_ok());
        // pegin witness of arbitrary shape
        let mut p = Prng::from_u64(n as u64 ^ 0x9e);
        let k = *p.pick(&[0usize, 5, 6, 6, 6, 7]);
        let wit: Vec<Vec<u8>> = (0..k).map(|j| if j == 5 { let l = *p.pick(&[0usize, 79, 80, 81, 200]); p.bytes(l) } else if j == 0 { p.bytes(8) } else if j == 1 || j == 2 { p.bytes(32) } else { b.to_vec() }).collect();
        let prevout = elements::bitcoin::OutPoint::null();
        ctx.call("PeginData::from_pegin_witness", n, || elements::PeginData::from_pegin_witness(&wit, prevout).map(|d| (d.parse_tx().is_ok(), d.parse_merkle_proof().is_ok())).is_ok());
        ctx.call("deserialize<Pset>", n, || encode::deserialize::<Pset>(b).is_ok());
    }
}

impl World for SurfaceWorld {
    type Case = Case;
    fn name(&self) -> &'static str {
        "surface"
    }
    fn generate(&self, p: &mut Prng, scenario: &str, _run: u64) -> Case {
        let surface = if let Some(name) = scenario.strip_prefix("only:") {
            *SURFACES.iter().find(|s| format!("{:?}", s) == name).expect("surface name")
        } else {
            *p.pick(&SURFACES)
        };
        let seed = p.u64();
        let (text, bytes) = match surface {
            Surface::AddressText | Surface::Blech32Text | Surface::PsetText => (Some(draw_text(p, surface)), None),
            Surface::TextParsers => {
                let samples = ["0000000000000000000000000000000000000000000000000000000000000000:0", "6f0279e9ed041c3d710a9f57d0c02928416460c4b722ae3457a11eec381c526d", "SIGHASH_ALL", "SIGHASH_ALL|SIGHASH_ANYONECANPAY", "0x83", "4294967295", "500000000", "{\"a\":1}", "{\"b\":{\"c\":[1,2]},\"a\":null}", "OP_DUP", "76a914"];
                let base = (*p.pick(&samples)).to_string();
                (Some(if p.chance(1, 4) { base } else { mutate_text(p, &base) }), None)
            }
            Surface::ScriptBytes => {
                let base = gen::script(p, 120).to_bytes();
                let b = if p.coin() { base } else { mutate_bytes(p, &base) };
                // a push opcode whose announced length runs past the end (or is cut inside its length bytes)
                let b = if p.chance(1, 4) {
                    let mut v = b;
                    v.truncate(p.usize_below(v.len() + 1));
                    let tail: Vec<u8> = match p.below(8) {
                        0 => vec![0x4c],
                        1 => vec![0x4c, p.u8()],
                        2 => vec![0x4d],
                        3 => vec![0x4d, p.u8()],
                        4 => vec![0x4d, p.u8(), p.u8()],
                        5 => vec![0x4e, p.u8(), p.u8()],
                        6 => vec![0x4e, 0xff, 0xff, 0xff, 0xff],
                        _ => vec![1 + p.below(75) as u8],
                    };
                    v.extend(tail);
                    let k = p.usize_below(6);
                    v.extend(p.bytes(k));
                    v
                } else {
                    b
                };
                // pegout-shaped scripts
                let b = if p.chance(1, 5) { let mut v = vec![0x6a, 0x20]; v.extend(p.bytes(32)); v.push(p.below(0x4f) as u8); let k = p.usize_below(30); v.extend(p.bytes(k)); v } else { b };
                (None, Some(b))
            }
            Surface::SliceParsers => {
                let pl = gen::pool();
                let base: Vec<u8> = match p.below(6) {
                    0 => psetgen::control_block(p).serialize(),
                    1 => psetgen::schnorr_sig(p).to_vec(),
                    2 => { let k = p.usize_below(5); p.bytes(32 * k) }
                    3 => elements::secp256k1_zkp::RangeProof::serialize(p.pick(&pl.rangeproofs)),
                    4 => elements::secp256k1_zkp::SurjectionProof::serialize(p.pick(&pl.surjproofs)),
                    _ => { let n = p.len_biased(200); p.bytes(n) }
                };
                (None, Some(if p.chance(1, 4) { base } else { mutate_bytes(p, &base) }))
            }
            Surface::Commitments => {
                let pl = gen::pool();
                let base: Vec<u8> = match p.below(5) {
                    0 => p.pick(&pl.comms).serialize().to_vec(),
                    1 => p.pick(&pl.gens).serialize().to_vec(),
                    2 => p.pick(&pl.pks).serialize().to_vec(),
                    3 => p.bytes(64),
                    _ => { let n = p.usize_below(70); p.bytes(n) }
                };
                let mut b = if p.coin() { base } else { mutate_bytes(p, &base) };
                if p.chance(1, 4) {
                    b.truncate(p.usize_below(34));
                }
                (None, Some(b))
            }
            Surface::TxAccessors => {
                let tx = gen::tx(&spec_small(p));
                let base = encode::serialize(&tx);
                (None, Some(if p.chance(1, 3) { base } else { mutate_bytes(p, &base) }))
            }
            Surface::BlockAccessors => {
                let s = spec_small(p);
                let n = p.u32();
                let base = match crate::corpus::nth(crate::corpus::Kind::Block, n) {
                    // one in four: a real block of the repository's vectors
                    Some(i) if p.chance(1, 4) => crate::corpus::get().bytes(i).to_vec(),
                    _ => encode::serialize(&gen::block(p.u64(), p.usize_below(3), &s)),
                };
                (None, Some(if p.chance(1, 3) { base } else { mutate_bytes(p, &base) }))
            }
            Surface::Metadata => {
                use elements::pset::elip100::{AssetMetadata, TokenMetadata};
                let base = if p.coin() { AssetMetadata::new("{\"name\":\"x\"}".into(), elements::OutPoint::new(gen::txid(p), 1)).serialize() } else { TokenMetadata::new(gen::asset_id(p), p.coin()).serialize() };
                (None, Some(if p.chance(1, 4) { base } else { mutate_bytes(p, &base) }))
            }
            Surface::PsetOps | Surface::BlindOps | Surface::TaprootBuilderOps | Surface::IntArgs => (None, None),
        };
        Case { surface, seed, text, bytes }
    }
    fn execute(&self, case: &Case, ctx: &mut Ctx) {
        let name = format!("{:?}", case.surface);
        ctx.sig(&name);
        ctx.ev(&name, case.seed);
        ctx.fault("arbitrary_input", 1);
        let empty_s = String::new();
        let empty_b = Vec::new();
        let s = case.text.as_ref().unwrap_or(&empty_s);
        let b = case.bytes.as_ref().unwrap_or(&empty_b);
        ctx.sig_n("lenclass", ((s.len() + b.len()) as f64 + 1.0).log2() as u64);
        match case.surface {
            Surface::AddressText => self.address_text(ctx, s),
            Surface::Blech32Text => self.blech32_text(ctx, s),
            Surface::ScriptBytes => self.script_bytes(ctx, b),
            Surface::SliceParsers => self.slice_parsers(ctx, b),
            Surface::TxAccessors => self.tx_accessors(ctx, b),
            Surface::BlockAccessors => self.block_accessors(ctx, b),
            Surface::PsetText => self.pset_text(ctx, s),
            Surface::PsetOps => self.pset_ops(ctx, case.seed),
            Surface::BlindOps => self.blind_ops(ctx, case.seed),
            Surface::TaprootBuilderOps => self.taproot_builder_ops(ctx, case.seed),
            Surface::Commitments => self.commitments(ctx, b),
            Surface::TextParsers => self.text_parsers(ctx, s),
            Surface::Metadata => self.metadata(ctx, b),
            Surface::IntArgs => self.int_args(ctx, case.seed),
        }
        ctx.sig_n("viol", ctx.violations.len() as u64);
    }
    fn shrink(&self, case: &Case, _v: &Violation) -> Vec<Case> {
        let mut out = Vec::new();
        if let Some(s) = &case.text {
            let chars: Vec<char> = s.chars().collect();
            if chars.len() > 1 {
                out.push(Case { text: Some(chars[..chars.len() / 2].iter().collect()), ..case.clone() });
                out.push(Case { text: Some(chars[chars.len() / 2..].iter().collect()), ..case.clone() });
                for i in 0..chars.len().min(64) {
                    let mut c = chars.clone();
                    c.remove(i);
                    out.push(Case { text: Some(c.into_iter().collect()), ..case.clone() });
                }
            }
        }
        if let Some(b) = &case.bytes {
            if b.len() > 1 {
                out.push(Case { bytes: Some(b[..b.len() / 2].to_vec()), ..case.clone() });
                out.push(Case { bytes: Some(b[b.len() / 2..].to_vec()), ..case.clone() });
                out.push(Case { bytes: Some(b[..b.len() - 1].to_vec()), ..case.clone() });
            }
        }
        out
    }
}
