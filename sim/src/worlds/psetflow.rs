//! World `psetflow` (C07 hops, C08, C09, C14, C10): parties exchanging a PSET serialized as bytes or
//! base64 through the medium. Scenarios: txrtt, locktime, uid (C08); merge (C14); blind (C09).

use crate::ctx::{Ctx, Violation};
use crate::gen::{self, secp, TxSpec};
use crate::prng::Prng;
use crate::psetgen::{self, PsetSpec};
use crate::runner::World;
use crate::seams::{IoPlan, SimReader, SimWriter};
use elements::encode::{self, Decodable, Encodable};
use elements::pset::{Input, Output, PartiallySignedTransaction as Pset};
use elements::{locktime, LockTime, OutPoint, Script, Sequence, Transaction, TxIn, TxInWitness, TxOut, TxOutWitness};
use serde::{Deserialize, Serialize};
use std::str::FromStr;

pub mod blind;
pub mod merge;

#[derive(Clone, Debug, Serialize, Deserialize, PartialEq, Eq)]
pub struct HopPlan {
    pub write: IoPlan,
    pub read: IoPlan,
    pub text: bool,
    /// faulty configuration: the first delivery is corrupted by these edits (then retransmitted clean)
    pub corrupt: Option<crate::medium::Delivery>,
    /// the clean delivery arrives twice
    pub duplicate: bool,
}

impl HopPlan {
    pub fn draw(p: &mut Prng, faulty: bool) -> HopPlan {
        HopPlan {
            write: IoPlan::draw_benign(p),
            read: IoPlan::draw_benign(p),
            text: p.chance(1, 3),
            corrupt: if faulty && p.chance(1, 3) {
                // positions are fractions of 2^16 resolved against the actual length at execution time
                Some(vec![crate::medium::Edit { label: if p.coin() { "bitflip".into() } else { "trunc".into() }, pos: p.usize_below(1 << 16), remove: 1, insert: vec![p.u8() | 1] }])
            } else {
                None
            },
            duplicate: faulty && p.chance(1, 4),
        }
    }
    pub fn perfect() -> HopPlan {
        HopPlan { write: IoPlan::perfect(), read: IoPlan::perfect(), text: false, corrupt: None, duplicate: false }
    }
}

/// One hand-over between parties: serialize -> medium -> deserialize. Returns what the receiving party
/// ends up with (the clean PSET; a corrupted first delivery is either refused or checked for the
/// fixpoint and then discarded in favour of the retransmission).
pub fn hop(ctx: &mut Ctx, pset: &Pset, plan: &HopPlan) -> Option<Pset> {
    let mut w = SimWriter::new(&plan.write);
    let r = ctx.call("consensus_encode<Pset>", 0, || pset.consensus_encode(&mut w));
    ctx.io_counts("write", &w.counts);
    match r {
        Some(Ok(n)) => {
            ctx.check(n == w.accepted.len(), "C07.write.len", "hop", || format!("hop: encoder reported {} bytes, medium holds {}", n, w.accepted.len()));
        }
        Some(Err(e)) => {
            ctx.violate("C07.write.bytes", "hop|err", format!("hop: encoding a PSET into a benign writer failed: {:?}", e));
            return None;
        }
        None => return None,
    }
    let bytes = w.accepted;
    ctx.ev_bytes("hop.bytes", &bytes);
    if let Some(edits) = &plan.corrupt {
        let mut b = bytes.clone();
        for e in edits {
            if b.is_empty() {
                break;
            }
            let pos = e.pos * b.len() / (1 << 16);
            if e.label == "trunc" {
                b.truncate(pos);
            } else {
                b[pos] ^= e.insert.first().copied().unwrap_or(1);
            }
        }
        if b != bytes {
            ctx.fault("hop_corrupt", 1);
            if let Some(Ok(p2)) = ctx.call("deserialize<Pset>", b.len(), || encode::deserialize::<Pset>(&b)) {
                ctx.probe("hop_corrupt_accepted");
                let c = crate::ctx::guard(|| encode::serialize(&p2)).unwrap_or_default();
                match ctx.call("deserialize<Pset>", c.len(), || encode::deserialize::<Pset>(&c)) {
                    Some(Ok(p3)) => {
                        let c2 = crate::ctx::guard(|| encode::serialize(&p3)).unwrap_or_default();
                        ctx.check(p3 == p2 && c2 == c, "C07.accept.fixpoint", "hop", || "hop: canonical re-encoding of an accepted corrupted PSET is not a fixpoint".to_string());
                    }
                    Some(Err(e)) => ctx.violate("C07.accept.fixpoint", "hop|redecode", format!("hop: canonical re-encoding of an accepted corrupted PSET is rejected: {:?}", e)),
                    None => {}
                }
            }
        }
    }
    if plan.duplicate {
        ctx.fault("hop_duplicate", 1);
    }
    let deliveries = if plan.duplicate { 2 } else { 1 };
    let mut last = None;
    for _ in 0..deliveries {
        let got = if plan.text {
            let s = match ctx.call("Pset::to_string", 0, || pset.to_string()) {
                Some(s) => s,
                None => return None,
            };
            // the text form must carry the same bytes
            match ctx.call("Pset::from_str", s.len(), || Pset::from_str(&s)) {
                Some(Ok(p)) => Some(p),
                Some(Err(e)) => {
                    ctx.violate("C07.text", "from_str", format!("hop: base64 text of a PSET does not parse back: {:?}", e));
                    None
                }
                None => None,
            }
        } else {
            let mut rd = SimReader::new(&bytes, &plan.read);
            let r = ctx.call("consensus_decode<Pset>", bytes.len(), || Pset::consensus_decode(&mut rd));
            ctx.io_counts("read", &rd.counts);
            let consumed = rd.consumed();
            match r {
                Some(Ok(p)) => {
                    ctx.check(consumed == bytes.len(), "C07.read.consumed", "hop", || format!("hop: decoder took {} of {} bytes", consumed, bytes.len()));
                    Some(p)
                }
                Some(Err(e)) => {
                    ctx.violate("C07.rtt.eq", "hop|rejected", format!("hop: a PSET produced by the library is rejected by its own decoder: {:?}", e));
                    None
                }
                None => None,
            }
        };
        let Some(got) = got else { return None };
        ctx.check(got == *pset, if plan.text { "C07.text" } else { "C07.rtt.eq" }, "hop", || "hop: PSET changed across a serialize/deserialize hand-over".to_string());
        let re = crate::ctx::guard(|| encode::serialize(&got)).unwrap_or_default();
        ctx.check(re == bytes, "C07.rtt.bytes", "hop", || format!("hop: re-encoding the received PSET gives different bytes ({} vs {})", re.len(), bytes.len()));
        last = Some(got);
    }
    last
}

// ------------------------------------------------------------------------------------------------
// C08: transaction <-> PSET views

/// well-formed transaction in the sense of the property: pegin witnesses only on pegin inputs,
/// issuance proofs only on issuances, non-null outputs
pub fn wellformed_tx(spec: &TxSpec) -> Transaction {
    wellformed_tx_nonce(spec, false)
}

/// `exotic_nonce`: keep explicit nonces and confidential nonces on completely unblinded outputs. A PSET has
/// no field for the former and stores the latter as the blinding key, so extraction cannot return them
/// (recorded known finding C08.tx_rtt output.nonce(...)); they are confined to a fraction of the runs.
pub fn wellformed_tx_nonce(spec: &TxSpec, exotic_nonce: bool) -> Transaction {
    // (coinbase inputs are well-formed too: index 0xffffffff carries no pegin / issuance flag)
    let s = spec.clone();
    let mut tx = gen::tx(&s);
    let mut p = Prng::from_u64(spec.seed ^ 0x77);
    for i in &mut tx.input {
        if !i.is_pegin {
            i.witness.pegin_witness.clear();
        }
        if !i.has_issuance() {
            i.witness.amount_rangeproof = None;
            i.witness.inflation_keys_rangeproof = None;
        }
    }
    for o in &mut tx.output {
        if o.asset.is_null() {
            o.asset = gen::asset(&mut p, gen::Conf::Explicit);
        }
        if o.value.is_null() {
            o.value = gen::value(&mut p, gen::Conf::Explicit);
        }
        if !exotic_nonce {
            let unblinded = o.asset.is_explicit() && o.value.is_explicit() && o.witness.is_empty();
            if o.nonce.is_explicit() || (o.nonce.is_confidential() && unblinded) {
                o.nonce = elements::confidential::Nonce::Null;
            }
        }
    }
    tx
}

/// the format requires a blinder index wherever a blinding key is set; from_tx cannot know one
fn patch_blinder_index(ps: &mut Pset) {
    for o in ps.outputs_mut() {
        if o.blinding_key.is_some() && o.blinder_index.is_none() {
            o.blinder_index = Some(0);
        }
    }
}

/// what extraction must produce, written from the field meanings (not from the library's code)
pub fn model_extract(ps: &Pset, lock_time: LockTime) -> Transaction {
    let input = ps
        .inputs()
        .iter()
        .map(|i| {
            let idx = i.previous_output_index;
            let coinbase = idx == 0xffff_ffff;
            TxIn {
                previous_output: OutPoint::new(i.previous_txid, if coinbase { idx } else { idx & 0x3fff_ffff }),
                // index 0xffffffff carries no flags (the consensus encoding's exemption)
                is_pegin: !coinbase && idx & (1 << 30) != 0,
                script_sig: i.final_script_sig.clone().unwrap_or_default(),
                sequence: i.sequence.unwrap_or(Sequence::MAX),
                // the commitment, when present, is what the transaction carries; an explicit amount next to
                // it only serves the explicit-value proof
                asset_issuance: elements::AssetIssuance {
                    asset_blinding_nonce: i.issuance_blinding_nonce.unwrap_or(gen::ZERO_TWEAK),
                    asset_entropy: i.issuance_asset_entropy.unwrap_or_default(),
                    amount: match (i.issuance_value_comm, i.issuance_value_amount) {
                        (Some(c), _) => elements::confidential::Value::Confidential(c),
                        (None, Some(v)) => elements::confidential::Value::Explicit(v),
                        _ => elements::confidential::Value::Null,
                    },
                    inflation_keys: match (i.issuance_inflation_keys_comm, i.issuance_inflation_keys) {
                        (Some(c), _) => elements::confidential::Value::Confidential(c),
                        (None, Some(v)) => elements::confidential::Value::Explicit(v),
                        _ => elements::confidential::Value::Null,
                    },
                },
                witness: TxInWitness {
                    amount_rangeproof: i.issuance_value_rangeproof.clone(),
                    inflation_keys_rangeproof: i.issuance_keys_rangeproof.clone(),
                    script_witness: i.final_script_witness.clone().unwrap_or_default(),
                    pegin_witness: i.pegin_witness.clone().unwrap_or_default(),
                },
            }
        })
        .collect();
    let output = ps
        .outputs()
        .iter()
        .map(|o| TxOut {
            asset: match (o.asset_comm, o.asset) {
                (Some(g), _) => elements::confidential::Asset::Confidential(g),
                (None, Some(a)) => elements::confidential::Asset::Explicit(a),
                _ => elements::confidential::Asset::Null,
            },
            value: match (o.amount_comm, o.amount) {
                (Some(c), _) => elements::confidential::Value::Confidential(c),
                (None, Some(v)) => elements::confidential::Value::Explicit(v),
                _ => elements::confidential::Value::Null,
            },
            nonce: o.ecdh_pubkey.map(|k| elements::confidential::Nonce::Confidential(k.inner)).unwrap_or_default(),
            script_pubkey: o.script_pubkey.clone(),
            witness: TxOutWitness { surjection_proof: o.asset_surjection_proof.clone(), rangeproof: o.value_rangeproof.clone() },
        })
        .collect();
    Transaction { version: ps.global.tx_data.version, lock_time, input, output }
}

#[derive(Clone, Copy, Debug, Serialize, Deserialize, PartialEq, Eq)]
pub enum Req {
    None,
    Time(u32),
    Height(u32),
    Both(u32, u32),
}

/// BIP370 "Determining Lock Time", as text: Ok(consensus value) or Err(()).
pub fn model_locktime(reqs: &[Req], fallback: Option<u32>) -> Result<u32, ()> {
    let constraining: Vec<&Req> = reqs.iter().filter(|r| **r != Req::None).collect();
    if constraining.is_empty() {
        return Ok(fallback.unwrap_or(0));
    }
    let all_height = constraining.iter().all(|r| matches!(r, Req::Height(_) | Req::Both(..)));
    let all_time = constraining.iter().all(|r| matches!(r, Req::Time(_) | Req::Both(..)));
    if all_height {
        Ok(constraining.iter().map(|r| match r { Req::Height(h) | Req::Both(_, h) => *h, _ => 0 }).max().unwrap())
    } else if all_time {
        Ok(constraining.iter().map(|r| match r { Req::Time(t) | Req::Both(t, _) => *t, _ => 0 }).max().unwrap())
    } else {
        Err(())
    }
}

#[derive(Clone, Debug, Serialize, Deserialize, PartialEq, Eq)]
pub enum UidOp {
    Sequence { input: usize, seed: u64 },
    PartialSig { input: usize, seed: u64 },
    SighashType { input: usize, seed: u64 },
    RedeemScript { input: usize, seed: u64 },
    WitnessScript { input: usize, seed: u64 },
    Bip32 { input: usize, seed: u64 },
    FinalScriptSig { input: usize, seed: u64 },
    FinalScriptWitness { input: usize, seed: u64 },
    TapKeySig { input: usize, seed: u64 },
    TapScriptSig { input: usize, seed: u64 },
    TapLeafScript { input: usize, seed: u64 },
    TapInternalKey { input: usize, seed: u64 },
    InExplicitValueProof { input: usize, seed: u64 },
    InExplicitAssetProof { input: usize, seed: u64 },
    /// explicit issuance amount / inflation keys next to an existing commitment, with its proof
    IssuanceValueProof { input: usize, seed: u64 },
    IssuanceKeysProof { input: usize, seed: u64 },
    OutScripts { output: usize, seed: u64 },
    OutBip32 { output: usize, seed: u64 },
    OutValueProof { output: usize, seed: u64 },
    OutAssetProof { output: usize, seed: u64 },
    /// hand the PSET to the next party
    Hop(HopPlan),
}

impl UidOp {
    fn name(&self) -> &'static str {
        match self {
            UidOp::Sequence { .. } => "sequence",
            UidOp::PartialSig { .. } => "partial_sig",
            UidOp::SighashType { .. } => "sighash_type",
            UidOp::RedeemScript { .. } => "redeem_script",
            UidOp::WitnessScript { .. } => "witness_script",
            UidOp::Bip32 { .. } => "bip32_derivation",
            UidOp::FinalScriptSig { .. } => "final_script_sig",
            UidOp::FinalScriptWitness { .. } => "final_script_witness",
            UidOp::TapKeySig { .. } => "tap_key_sig",
            UidOp::TapScriptSig { .. } => "tap_script_sig",
            UidOp::TapLeafScript { .. } => "tap_leaf_script",
            UidOp::TapInternalKey { .. } => "tap_internal_key",
            UidOp::InExplicitValueProof { .. } => "in_explicit_value_proof",
            UidOp::InExplicitAssetProof { .. } => "in_explicit_asset_proof",
            UidOp::IssuanceValueProof { .. } => "issuance_value_proof",
            UidOp::IssuanceKeysProof { .. } => "issuance_keys_proof",
            UidOp::OutScripts { .. } => "out_scripts",
            UidOp::OutBip32 { .. } => "out_bip32",
            UidOp::OutValueProof { .. } => "out_value_proof",
            UidOp::OutAssetProof { .. } => "out_asset_proof",
            UidOp::Hop(_) => "hop",
        }
    }
    fn draw(p: &mut Prng, faulty: bool) -> UidOp {
        let input = p.usize_below(8);
        let output = p.usize_below(8);
        let seed = p.u64();
        match p.below(25) {
            22 => UidOp::IssuanceValueProof { input, seed },
            23 | 24 => UidOp::IssuanceKeysProof { input, seed },
            0 => UidOp::Sequence { input, seed },
            1 => UidOp::PartialSig { input, seed },
            2 => UidOp::SighashType { input, seed },
            3 => UidOp::RedeemScript { input, seed },
            4 => UidOp::WitnessScript { input, seed },
            5 => UidOp::Bip32 { input, seed },
            6 | 7 => UidOp::FinalScriptSig { input, seed },
            8 => UidOp::FinalScriptWitness { input, seed },
            9 => UidOp::TapKeySig { input, seed },
            10 => UidOp::TapScriptSig { input, seed },
            11 => UidOp::TapLeafScript { input, seed },
            12 => UidOp::TapInternalKey { input, seed },
            13 => UidOp::InExplicitValueProof { input, seed },
            14 => UidOp::InExplicitAssetProof { input, seed },
            15 => UidOp::OutScripts { output, seed },
            16 => UidOp::OutBip32 { output, seed },
            17 => UidOp::OutValueProof { output, seed },
            18 => UidOp::OutAssetProof { output, seed },
            _ => UidOp::Hop(HopPlan::draw(p, faulty)),
        }
    }
    fn apply(&self, ps: &mut Pset) {
        let pl = gen::pool();
        let n_in = ps.inputs().len();
        let n_out = ps.outputs().len();
        match self {
            UidOp::Hop(_) => {}
            UidOp::OutScripts { output, seed } | UidOp::OutBip32 { output, seed } | UidOp::OutValueProof { output, seed } | UidOp::OutAssetProof { output, seed } => {
                if n_out == 0 {
                    return;
                }
                let mut p = Prng::from_u64(*seed);
                let o = &mut ps.outputs_mut()[*output % n_out];
                match self {
                    UidOp::OutScripts { .. } => {
                        o.redeem_script = Some(gen::script(&mut p, 60));
                        o.witness_script = Some(gen::script(&mut p, 60));
                    }
                    UidOp::OutBip32 { .. } => {
                        o.bip32_derivation.insert(psetgen::btc_pubkey(&mut p), psetgen::key_source(&mut p, 5));
                    }
                    UidOp::OutValueProof { .. } => o.blind_value_proof = Some(Box::new(p.pick(&pl.rangeproofs).clone())),
                    _ => o.blind_asset_proof = Some(Box::new(p.pick(&pl.surjproofs).clone())),
                }
            }
            _ => {
                if n_in == 0 {
                    return;
                }
                let (input, seed) = match self {
                    UidOp::Sequence { input, seed } | UidOp::PartialSig { input, seed } | UidOp::SighashType { input, seed } | UidOp::RedeemScript { input, seed } | UidOp::WitnessScript { input, seed } | UidOp::Bip32 { input, seed } | UidOp::FinalScriptSig { input, seed } | UidOp::FinalScriptWitness { input, seed } | UidOp::TapKeySig { input, seed } | UidOp::TapScriptSig { input, seed } | UidOp::TapLeafScript { input, seed } | UidOp::TapInternalKey { input, seed } | UidOp::InExplicitValueProof { input, seed } | UidOp::InExplicitAssetProof { input, seed } | UidOp::IssuanceValueProof { input, seed } | UidOp::IssuanceKeysProof { input, seed } => (*input, *seed),
                    _ => unreachable!(),
                };
                let mut p = Prng::from_u64(seed);
                let i = &mut ps.inputs_mut()[input % n_in];
                match self {
                    UidOp::Sequence { .. } => i.sequence = Some(gen::sequence(&mut p)),
                    UidOp::PartialSig { .. } => {
                        let n = p.len_biased(72);
                        i.partial_sigs.insert(psetgen::btc_pubkey(&mut p), p.bytes(n));
                    }
                    UidOp::SighashType { .. } => i.sighash_type = Some(elements::pset::PsbtSighashType::from_u32(p.u32())),
                    UidOp::RedeemScript { .. } => i.redeem_script = Some(gen::script(&mut p, 60)),
                    UidOp::WitnessScript { .. } => i.witness_script = Some(gen::script(&mut p, 60)),
                    UidOp::Bip32 { .. } => {
                        i.bip32_derivation.insert(psetgen::btc_pubkey(&mut p), psetgen::key_source(&mut p, 5));
                    }
                    UidOp::FinalScriptSig { .. } => {
                        let mut s = gen::script(&mut p, 60);
                        if s.is_empty() {
                            s = Script::from(vec![0x51]);
                        }
                        i.final_script_sig = Some(s)
                    }
                    UidOp::FinalScriptWitness { .. } => i.final_script_witness = Some(gen::witness_stack(&mut p, 3, 60)),
                    UidOp::TapKeySig { .. } => i.tap_key_sig = Some(psetgen::schnorr_sig(&mut p)),
                    UidOp::TapScriptSig { .. } => {
                        use elements::hashes::Hash;
                        i.tap_script_sigs.insert((psetgen::xonly(&mut p), elements::taproot::TapLeafHash::from_byte_array(p.arr32())), psetgen::schnorr_sig(&mut p));
                    }
                    UidOp::TapLeafScript { .. } => {
                        i.tap_scripts.insert(psetgen::control_block(&mut p), (gen::script(&mut p, 40), psetgen::leaf_version(&mut p)));
                    }
                    UidOp::TapInternalKey { .. } => i.tap_internal_key = Some(psetgen::xonly(&mut p)),
                    UidOp::InExplicitValueProof { .. } => {
                        i.amount = Some(p.u64());
                        i.blind_value_proof = Some(Box::new(p.pick(&pl.rangeproofs).clone()));
                    }
                    UidOp::InExplicitAssetProof { .. } => {
                        i.asset = Some(gen::asset_id(&mut p));
                        i.blind_asset_proof = Some(Box::new(p.pick(&pl.surjproofs).clone()));
                    }
                    UidOp::IssuanceValueProof { .. } => {
                        if i.issuance_value_comm.is_some() {
                            i.issuance_value_amount = Some(1 + p.below(1 << 40));
                            i.in_issuance_blind_value_proof = Some(Box::new(p.pick(&pl.rangeproofs).clone()));
                        }
                    }
                    UidOp::IssuanceKeysProof { .. } => {
                        if i.issuance_inflation_keys_comm.is_some() {
                            i.issuance_inflation_keys = Some(1 + p.below(1 << 20));
                            i.in_issuance_blind_inflation_keys_proof = Some(Box::new(p.pick(&pl.rangeproofs).clone()));
                        }
                    }
                    _ => unreachable!(),
                }
            }
        }
    }
}

#[derive(Clone, Debug, Serialize, Deserialize)]
pub enum Case {
    TxRtt { tx: TxSpec, hop: HopPlan, exotic_nonce: bool },
    Locktime { reqs: Vec<Req>, fallback: Option<u32>, hop: Option<HopPlan> },
    Uid { tx: TxSpec, from_tx: bool, ops: Vec<UidOp> },
    Extract { pset: PsetSpec },
    /// ELIP-100 / ELIP-102 metadata set through the accessors, carried over a hand-over, read back
    Elip { pset: PsetSpec, seed: u64, hop: HopPlan },
    Merge(merge::MergeCase),
    Blind(blind::BlindCase),
}

pub struct PsetFlowWorld;

fn base_pset_for_uid(tx: &TxSpec, from_tx: bool) -> Pset {
    let mut t = wellformed_tx(tx);
    if t.input.is_empty() {
        t.input.push(TxIn { previous_output: OutPoint::new(gen::txid(&mut Prng::from_u64(tx.seed)), 0), ..Default::default() });
    }
    if from_tx {
        // the creator's unsigned transaction: no signatures yet
        for i in &mut t.input {
            i.script_sig = Script::new();
            i.witness.script_witness.clear();
        }
        let mut ps = Pset::from_tx(t);
        patch_blinder_index(&mut ps);
        ps
    } else {
        let mut ps = Pset::new_v2();
        ps.global.tx_data.version = t.version;
        ps.global.tx_data.fallback_locktime = Some(t.lock_time);
        for i in &t.input {
            ps.add_input(Input::from_prevout(i.previous_output));
        }
        for o in t.output {
            let mut out = Output::from_txout(o);
            // a creator's output: no blinding data
            out.blinding_key = None;
            out.ecdh_pubkey = None;
            ps.add_output(out);
        }
        ps
    }
}

impl World for PsetFlowWorld {
    type Case = Case;
    fn name(&self) -> &'static str {
        "psetflow"
    }
    fn generate(&self, p: &mut Prng, scenario: &str, _run: u64) -> Case {
        let (sc, mode) = scenario.split_once(':').unwrap_or((scenario, "faultfree"));
        let faulty = mode == "faulty";
        match sc {
            "txrtt" => {
                let mut tx = TxSpec::draw_with_corpus(p, 6, 6, 6);
                tx.max_blob = tx.max_blob.min(300);
                Case::TxRtt { tx, hop: HopPlan::draw(p, faulty), exotic_nonce: p.chance(1, 6) }
            }
            "locktime" => {
                let n = p.urange(0, 5);
                let reqs = (0..n)
                    .map(|_| {
                        let tmax = if p.coin() { 10 } else { 3_000_000_000 };
                        let t = 500_000_000 + p.below(tmax) as u32;
                        let hmax = if p.coin() { 10 } else { 500_000_000 };
                        let h = p.below(hmax) as u32;
                        match p.below(5) {
                            0 | 1 => Req::None,
                            2 => Req::Time(t),
                            3 => Req::Height(h),
                            _ => Req::Both(t, h),
                        }
                    })
                    .collect();
                Case::Locktime { reqs, fallback: if p.coin() { Some(p.u32()) } else { None }, hop: if p.coin() { Some(HopPlan::draw(p, faulty)) } else { None } }
            }
            "uid" => {
                let mut tx = TxSpec::draw_with_corpus(p, 4, 4, 6);
                tx.max_blob = 60;
                let n = p.urange(1, 12);
                Case::Uid { tx, from_tx: p.coin(), ops: (0..n).map(|_| UidOp::draw(p, faulty)).collect() }
            }
            "extract" => {
                let mut pset = PsetSpec::draw_with_corpus(p, 6);
                pset.at_count_limit = 0;
                Case::Extract { pset }
            }
            "elip" => {
                let mut ps = PsetSpec::draw(p);
                ps.elip = false;
                ps.at_count_limit = 0;
                Case::Elip { pset: ps, seed: p.u64(), hop: HopPlan::draw(p, faulty) }
            }
            "merge" => Case::Merge(merge::MergeCase::draw(p, faulty)),
            "blind" => Case::Blind(blind::BlindCase::draw(p, faulty)),
            _ => panic!("unknown scenario {}", scenario),
        }
    }

    fn execute(&self, case: &Case, ctx: &mut Ctx) {
        match case {
            Case::TxRtt { tx, hop: hp, exotic_nonce } => {
                let t = wellformed_tx_nonce(tx, *exotic_nonce);
                ctx.sig_n("exotic_nonce", *exotic_nonce as u64);
                ctx.sig("txrtt");
                ctx.sig_n("n_in", t.input.len() as u64);
                ctx.sig_n("n_out", t.output.len() as u64);
                let Some(ps) = ctx.call("Pset::from_tx", 0, || Pset::from_tx(t.clone())) else { return };
                match ctx.call("Pset::extract_tx", 0, || ps.extract_tx()) {
                    Some(Ok(t2)) => {
                        let key = first_diff_field(&t, &t2);
                        ctx.check(t2 == t, "C08.tx_rtt", &key, || format!("from_tx(t).extract_tx() != t; first differing field: {}; spec {:?}", key, tx));
                    }
                    Some(Err(e)) => ctx.violate("C08.tx_rtt", "extract-err", format!("from_tx(t).extract_tx() failed: {:?}", e)),
                    None => {}
                }
                // the PSET view survives a hand-over and still extracts to the same transaction
                let mut ps = ps;
                patch_blinder_index(&mut ps);
                if let Some(ps2) = hop(ctx, &ps, hp) {
                    if let Some(Ok(t3)) = ctx.call("Pset::extract_tx", 0, || ps2.extract_tx()) {
                        let a = ctx.call("Pset::extract_tx", 0, || ps.extract_tx());
                        ctx.check(matches!(&a, Some(Ok(x)) if *x == t3), "C08.extract.det", "after-hop", || "extraction after a hand-over differs from extraction before".to_string());
                    }
                }
            }
            Case::Locktime { reqs, fallback, hop: hp } => {
                ctx.sig("locktime");
                ctx.nontrivial = true;
                let mut ps = Pset::new_v2();
                ps.global.tx_data.fallback_locktime = fallback.map(LockTime::from_consensus);
                let mut p = Prng::from_u64(reqs.len() as u64 + 17);
                for r in reqs {
                    let mut i = Input::from_prevout(OutPoint::new(gen::txid(&mut p), 0));
                    match r {
                        Req::None => {}
                        Req::Time(t) => i.required_time_locktime = locktime::Time::from_consensus(*t).ok(),
                        Req::Height(h) => i.required_height_locktime = locktime::Height::from_consensus(*h).ok(),
                        Req::Both(t, h) => {
                            i.required_time_locktime = locktime::Time::from_consensus(*t).ok();
                            i.required_height_locktime = locktime::Height::from_consensus(*h).ok();
                        }
                    }
                    ps.add_input(i);
                    ctx.sig(match r { Req::None => "n", Req::Time(_) => "t", Req::Height(_) => "h", Req::Both(..) => "b" });
                }
                let ps = match hp {
                    Some(h) => match hop(ctx, &ps, h) {
                        Some(x) => x,
                        None => return,
                    },
                    None => ps,
                };
                let model = model_locktime(reqs, *fallback);
                let Some(got) = ctx.call("Pset::locktime", 0, || ps.locktime()) else { return };
                let got_c = got.as_ref().map(|l| l.to_consensus_u32()).map_err(|_| ());
                ctx.ev("locktime", got_c.unwrap_or(u32::MAX) as u64);
                let has_both = reqs.iter().any(|r| matches!(r, Req::Both(..)));
                let key = match (&model, &got_c) {
                    (Ok(_), Err(_)) => "model-ok-code-err",
                    (Err(_), Ok(_)) => "model-err-code-ok",
                    _ if has_both => "value-with-both",
                    _ => "value",
                };
                ctx.check(model == got_c, "C08.locktime", key, || format!("locktime(): BIP370 model says {:?}, library says {:?}; requirements {:?}, fallback {:?}", model, got, reqs, fallback));
                // extraction uses the same lock time
                if let (Ok(m), Some(Ok(t))) = (model, ctx.call("Pset::extract_tx", 0, || ps.extract_tx())) {
                    ctx.check(t.lock_time.to_consensus_u32() == m, "C08.locktime", "extract", || format!("extract_tx lock time {} differs from BIP370 model {}", t.lock_time, m));
                }
            }
            Case::Uid { tx, from_tx, ops } => {
                ctx.sig("uid");
                let mut ps = base_pset_for_uid(tx, *from_tx);
                let id0 = match ctx.call("Pset::unique_id", 0, || ps.unique_id()) {
                    Some(Ok(id)) => id,
                    Some(Err(e)) => {
                        ctx.violate("C08.uid.stable", "creator-err", format!("unique_id of a freshly created PSET failed: {:?}", e));
                        return;
                    }
                    None => return,
                };
                let mut prev = id0;
                for (step, op) in ops.iter().enumerate() {
                    ctx.sig(op.name());
                    ctx.ev(op.name(), step as u64);
                    if let UidOp::Hop(h) = op {
                        ctx.nontrivial = true;
                        match hop(ctx, &ps, h) {
                            Some(x) => ps = x,
                            None => return,
                        }
                    } else {
                        if step > 0 {
                            ctx.nontrivial = true;
                        }
                        op.apply(&mut ps);
                    }
                    match ctx.call("Pset::unique_id", 0, || ps.unique_id()) {
                        Some(Ok(id)) => {
                            // attribute a change to the event that caused it
                            ctx.check(id == prev, "C08.uid.stable", op.name(), || format!("step {} ({}): unique id changed from {} to {} (id at creation {})", step, op.name(), prev, id, id0));
                            prev = id;
                        }
                        Some(Err(e)) => ctx.violate("C08.uid.stable", &format!("{}|err", op.name()), format!("step {} ({}): unique_id failed: {:?}", step, op.name(), e)),
                        None => {}
                    }
                    check_extract(ctx, &ps);
                }
            }
            Case::Extract { pset } => {
                ctx.sig("extract");
                ctx.nontrivial = true;
                ctx.sig_n("n_in", pset.n_in as u64);
                ctx.sig_n("n_out", pset.n_out as u64);
                ctx.sig_n("flags", pset.bip174 as u64 | (pset.taproot as u64) << 1 | (pset.elements as u64) << 2 | (pset.extras as u64) << 3 | (pset.utxos as u64) << 4 | (pset.blinded_outputs as u64) << 5 | (pset.globals as u64) << 6);
                let ps = psetgen::pset(pset);
                check_extract(ctx, &ps);
            }
            Case::Elip { pset, seed, hop: hp } => {
                use elements::pset::elip100::{AssetMetadata, TokenMetadata};
                ctx.sig("elip");
                ctx.nontrivial = true;
                let mut ps = psetgen::pset(pset);
                let mut p = Prng::from_u64(*seed);
                let mut assets = Vec::new();
                let mut tokens = Vec::new();
                for _ in 0..p.urange(1, 3) {
                    let id = gen::asset_id(&mut p);
                    let n = p.len_biased(400);
                    let contract: String = (0..n).map(|_| if p.chance(1, 10) { 'é' } else { (b' ' + p.below(90) as u8) as char }).collect();
                    let prevout = OutPoint::new(gen::txid(&mut p), p.u32());
                    let first = ps.add_asset_metadata(id, &AssetMetadata::new(contract.clone(), prevout));
                    ctx.check(first.is_none(), "C07.elip", "add-returned-old", || "add_asset_metadata on a fresh asset id returned a previous value".to_string());
                    if p.chance(1, 3) {
                        // setting it again returns the previous value and keeps the new one
                        let again = ps.add_asset_metadata(id, &AssetMetadata::new(contract.clone(), prevout));
                        ctx.check(matches!(&again, Some(Ok(m)) if m.contract() == contract && m.issuance_prevout() == prevout), "C07.elip", "replace", || "add_asset_metadata did not return the value it replaced".to_string());
                    }
                    assets.push((id, contract, prevout));
                }
                for _ in 0..p.urange(0, 2) {
                    let id = gen::asset_id(&mut p);
                    let aid = gen::asset_id(&mut p);
                    let bl = p.coin();
                    ps.add_token_metadata(id, &TokenMetadata::new(aid, bl));
                    tokens.push((id, aid, bl));
                }
                let mut in_abfs = Vec::new();
                for i in ps.inputs_mut() {
                    if p.coin() {
                        let a = gen::abf(&mut p);
                        i.set_abf(a);
                        in_abfs.push(Some(a));
                    } else {
                        in_abfs.push(None);
                    }
                }
                let mut out_abfs = Vec::new();
                for o in ps.outputs_mut() {
                    if p.coin() {
                        let a = gen::abf(&mut p);
                        o.set_abf(a);
                        out_abfs.push(Some(a));
                    } else {
                        out_abfs.push(None);
                    }
                }
                ctx.sig_n("n", (assets.len() + 4 * tokens.len()) as u64);
                let Some(rx) = hop(ctx, &ps, hp) else { return };
                for (id, contract, prevout) in &assets {
                    let got = ctx.call("Pset::get_asset_metadata", 0, || rx.get_asset_metadata(*id));
                    ctx.check(matches!(&got, Some(Some(Ok(m))) if m.contract() == contract && m.issuance_prevout() == *prevout), "C07.elip", "asset-metadata", || format!("asset metadata set through the accessor reads back as {:?} after a hand-over", got));
                }
                for (id, aid, bl) in &tokens {
                    let got = ctx.call("Pset::get_token_metadata", 0, || rx.get_token_metadata(*id));
                    ctx.check(matches!(&got, Some(Some(Ok(m))) if m.asset_id() == aid && m.issuance_blinded() == *bl), "C07.elip", "token-metadata", || format!("token metadata set through the accessor reads back as {:?} after a hand-over", got));
                }
                // an id that was never set reads back as absent
                let other = gen::asset_id(&mut p);
                ctx.check(rx.get_asset_metadata(other).is_none() && rx.get_token_metadata(other).is_none(), "C07.elip", "phantom", || "metadata reported for an asset id that was never set".to_string());
                for (k, a) in in_abfs.iter().enumerate() {
                    let got = rx.inputs()[k].get_abf();
                    let ok = match (a, &got) {
                        (Some(x), Some(Ok(y))) => x == y,
                        (None, None) => true,
                        // the generated ancestor never carries a liquidex abf of its own (elip = false)
                        _ => false,
                    };
                    ctx.check(ok, "C07.elip", "input-abf", || format!("input {} abf set {:?}, read back {:?}", k, a, got));
                }
                for (k, a) in out_abfs.iter().enumerate() {
                    let got = rx.outputs()[k].get_abf();
                    let ok = match (a, &got) {
                        (Some(x), Some(Ok(y))) => x == y,
                        (None, None) => true,
                        _ => false,
                    };
                    ctx.check(ok, "C07.elip", "output-abf", || format!("output {} abf set {:?}, read back {:?}", k, a, got));
                }
            }
            Case::Merge(m) => merge::execute(m, ctx),
            Case::Blind(b) => blind::execute(b, ctx),
        }
    }

    fn shrink(&self, case: &Case, v: &Violation) -> Vec<Case> {
        match case {
            Case::TxRtt { tx, hop, exotic_nonce } => {
                let mut out: Vec<Case> = tx.shrinks().into_iter().map(|t| Case::TxRtt { tx: t, hop: hop.clone(), exotic_nonce: *exotic_nonce }).collect();
                if *hop != HopPlan::perfect() {
                    out.insert(0, Case::TxRtt { tx: tx.clone(), hop: HopPlan::perfect(), exotic_nonce: *exotic_nonce });
                }
                out
            }
            Case::Locktime { reqs, fallback, hop } => {
                let mut out = Vec::new();
                if hop.is_some() {
                    out.push(Case::Locktime { reqs: reqs.clone(), fallback: *fallback, hop: None });
                }
                for i in 0..reqs.len() {
                    let mut r = reqs.clone();
                    r.remove(i);
                    out.push(Case::Locktime { reqs: r, fallback: *fallback, hop: hop.clone() });
                }
                if fallback.is_some() {
                    out.push(Case::Locktime { reqs: reqs.clone(), fallback: None, hop: hop.clone() });
                }
                out
            }
            Case::Uid { tx, from_tx, ops } => {
                let mut out = Vec::new();
                if ops.len() > 1 {
                    out.push(Case::Uid { tx: tx.clone(), from_tx: *from_tx, ops: ops[..ops.len() / 2].to_vec() });
                    for i in 0..ops.len() {
                        let mut o = ops.clone();
                        o.remove(i);
                        out.push(Case::Uid { tx: tx.clone(), from_tx: *from_tx, ops: o });
                    }
                }
                for t in tx.shrinks() {
                    out.push(Case::Uid { tx: t, from_tx: *from_tx, ops: ops.clone() });
                }
                out
            }
            Case::Extract { pset } => pset.shrinks().into_iter().map(|s| Case::Extract { pset: s }).collect(),
            Case::Elip { pset, seed, hop } => pset.shrinks().into_iter().map(|s| Case::Elip { pset: s, seed: *seed, hop: hop.clone() }).collect(),
            Case::Merge(m) => merge::shrink(m, v).into_iter().map(Case::Merge).collect(),
            Case::Blind(b) => blind::shrink(b, v).into_iter().map(Case::Blind).collect(),
        }
    }
}

fn first_diff_field(a: &Transaction, b: &Transaction) -> String {
    if a.version != b.version {
        return "version".into();
    }
    if a.lock_time != b.lock_time {
        return "lock_time".into();
    }
    if a.input.len() != b.input.len() {
        return "input.len".into();
    }
    if a.output.len() != b.output.len() {
        return "output.len".into();
    }
    for (x, y) in a.input.iter().zip(&b.input) {
        if x.previous_output != y.previous_output {
            return "input.previous_output".into();
        }
        if x.is_pegin != y.is_pegin {
            return "input.is_pegin".into();
        }
        if x.script_sig != y.script_sig {
            return "input.script_sig".into();
        }
        if x.sequence != y.sequence {
            return "input.sequence".into();
        }
        if x.asset_issuance != y.asset_issuance {
            return "input.asset_issuance".into();
        }
        if x.witness != y.witness {
            return "input.witness".into();
        }
    }
    for (x, y) in a.output.iter().zip(&b.output) {
        if x.asset != y.asset {
            return "output.asset".into();
        }
        if x.value != y.value {
            return "output.value".into();
        }
        if x.nonce != y.nonce {
            return format!("output.nonce({})", match x.nonce { elements::confidential::Nonce::Null => "null", elements::confidential::Nonce::Explicit(_) => "explicit", _ => if x.witness.is_empty() && x.asset.is_explicit() && x.value.is_explicit() { "confidential-on-unblinded-output" } else { "confidential" } });
        }
        if x.script_pubkey != y.script_pubkey {
            return "output.script_pubkey".into();
        }
        if x.witness != y.witness {
            return "output.witness".into();
        }
    }
    "equal".into()
}

/// extraction is deterministic and reflects exactly the fields (C08.extract.det)
fn check_extract(ctx: &mut Ctx, ps: &Pset) {
    let a = ctx.call("Pset::extract_tx", 0, || ps.extract_tx());
    let b = ctx.call("Pset::extract_tx", 0, || ps.extract_tx());
    let (Some(a), Some(b)) = (a, b) else { return };
    match (&a, &b) {
        (Ok(x), Ok(y)) => {
            ctx.check(x == y, "C08.extract.det", "twice", || "two extract_tx() calls on the same PSET disagree".to_string());
            if let Some(Ok(lt)) = ctx.call("Pset::locktime", 0, || ps.locktime()) {
                let m = model_extract(ps, lt);
                let key = first_diff_field(&m, x);
                ctx.check(m == *x, "C08.extract.det", &format!("fields|{}", key), || format!("extract_tx() does not reflect the PSET's fields; first differing field: {}", key));
            }
        }
        (Err(_), Err(_)) => {}
        _ => ctx.violate("C08.extract.det", "twice|ok-err", "two extract_tx() calls on the same PSET disagree (Ok vs Err)".to_string()),
    }
}
