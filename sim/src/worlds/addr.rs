//! World `addr` (C17): receiver formats an address, the medium substitutes one or two symbols,
//! the sender parses under every network. Any `Ok` is a violation.

use crate::ctx::{Ctx, Violation};
use crate::prng::Prng;
use crate::runner::World;
use elements::address::{Address, AddressParams, Payload};
use elements::secp256k1_zkp::{PublicKey, Secp256k1, SecretKey};
use serde::{Deserialize, Serialize};
use std::str::FromStr;

pub const ALPHABET: &[u8; 32] = b"qpzry9x8gf2tvdw0s3jn54khce6mua7l";

#[derive(Clone, Debug, Serialize, Deserialize)]
pub struct AddrSpec {
    pub net: u8, // 0 liquid, 1 elements, 2 liquid testnet
    pub version: u8,
    pub prog_len: usize,
    pub blinded: bool,
    pub seed: u64,
    pub upper: bool,
}

#[derive(Clone, Debug, Serialize, Deserialize)]
pub enum FaultSet {
    /// every single-symbol substitution in the data part (complete)
    AllDataSingles,
    /// every pair (i, j>i) for the given first position i, all 31*31 replacements (complete)
    DataPairsFrom { i: usize },
    /// `count` pairs drawn from `seed`
    SampledDataPairs { seed: u64, count: u32 },
    /// every 1- and 2-symbol substitution of the human-readable part by printable ASCII (complete)
    AllHrp,
    /// one explicit substitution list (positions are byte offsets into the rendered string)
    Explicit(Vec<(usize, u8)>),
}

#[derive(Clone, Debug, Serialize, Deserialize)]
pub struct Case {
    pub spec: AddrSpec,
    pub faults: FaultSet,
    /// replacement symbols in the other letter case than the string (must be rejected as mixed case)
    pub other_case: bool,
}

pub struct AddrWorld;

fn params(net: u8) -> &'static AddressParams {
    match net {
        0 => &AddressParams::LIQUID,
        1 => &AddressParams::ELEMENTS,
        _ => &AddressParams::LIQUID_TESTNET,
    }
}

pub fn build(spec: &AddrSpec) -> String {
    let mut p = Prng::from_u64(spec.seed);
    let program = p.bytes(spec.prog_len);
    let blinding_pubkey = if spec.blinded {
        let secp = Secp256k1::signing_only();
        let sk = loop {
            if let Ok(sk) = SecretKey::from_slice(&p.arr32()) {
                break sk;
            }
        };
        Some(PublicKey::from_secret_key(&secp, &sk))
    } else {
        None
    };
    let a = Address {
        params: params(spec.net),
        payload: Payload::WitnessProgram { version: bech32::Fe32::try_from(spec.version).expect("version <= 16"), program },
        blinding_pubkey,
    };
    let s = a.to_string();
    if spec.upper {
        s.to_ascii_uppercase()
    } else {
        s
    }
}

pub fn draw_spec(p: &mut Prng) -> AddrSpec {
    let version = if p.chance(2, 5) { 0 } else { p.range(1, 16) as u8 };
    let prog_len = if version == 0 {
        if p.coin() {
            20
        } else {
            32
        }
    } else if p.chance(1, 2) {
        32
    } else {
        p.urange(2, 40)
    };
    AddrSpec { net: p.below(3) as u8, version, prog_len, blinded: p.coin(), seed: p.u64(), upper: p.chance(1, 4) }
}

/// The representative addresses whose complete 2-symbol fault space is enumerated in the thorough tier:
/// each checksum variant x program-length class x network.
pub fn representatives() -> Vec<AddrSpec> {
    let mut v = Vec::new();
    let mut seed = 0xADD2_0001u64;
    for (version, prog_len) in [(0u8, 20usize), (0, 32), (1, 32), (16, 2), (2, 40)] {
        for blinded in [false, true] {
            for net in 0..3u8 {
                // one network per (variant, blinded) pair is enough for pairs; rotate to cover all three
                if (net as usize + version as usize + blinded as usize) % 3 != 0 {
                    continue;
                }
                seed += 1;
                v.push(AddrSpec { net, version, prog_len, blinded, seed, upper: false });
            }
        }
    }
    v
}

/// Blech32 / blech32m checksum written from the Elements specification (12-symbol BCH code over GF(32),
/// 60-bit state), independent of the library's generator table: residue 1 for blech32, 0x455972a3350f7a1 for
/// blech32m. Returns the residue of hrp-expansion ++ data (checksum included).
pub fn blech32_polymod_ref(s: &str) -> Option<u64> {
    let s = s.to_ascii_lowercase();
    let sep = s.rfind('1')?;
    let (hrp, data) = (&s[..sep], &s[sep + 1..]);
    let mut vals: Vec<u8> = hrp.bytes().map(|b| b >> 5).collect();
    vals.push(0);
    vals.extend(hrp.bytes().map(|b| b & 31));
    for c in data.bytes() {
        vals.push(ALPHABET.iter().position(|a| *a == c)? as u8);
    }
    let mut c: u64 = 1;
    for v in vals {
        let c0 = (c >> 55) as u8;
        c = ((c & 0x7f_ffff_ffff_ffff) << 5) ^ v as u64;
        if c0 & 1 != 0 {
            c ^= 0x7d_52fb_a40b_d886;
        }
        if c0 & 2 != 0 {
            c ^= 0x5e_8dbf_1a03_950c;
        }
        if c0 & 4 != 0 {
            c ^= 0x1c_3a3c_7407_2a18;
        }
        if c0 & 8 != 0 {
            c ^= 0x38_5d72_fa0e_5139;
        }
        if c0 & 16 != 0 {
            c ^= 0x70_93e5_a608_865b;
        }
    }
    Some(c)
}

fn parses(s: &str) -> Option<String> {
    if let Ok(a) = Address::from_str(s) {
        return Some(format!("from_str -> {}", a));
    }
    for n in 0..3u8 {
        if let Ok(a) = Address::parse_with_params(s, params(n)) {
            return Some(format!("parse_with_params(net {}) -> {}", n, a));
        }
    }
    None
}

impl AddrWorld {
    fn try_one(&self, ctx: &mut Ctx, orig: &[u8], subs: &[(usize, u8)], inv: &str) {
        let mut m = orig.to_vec();
        for (pos, ch) in subs {
            m[*pos] = *ch;
        }
        ctx.steps += 1;
        let s = match std::str::from_utf8(&m) {
            Ok(s) => s,
            Err(_) => return,
        };
        let r = crate::ctx::guard(|| parses(s));
        match r {
            Ok(None) => {}
            Ok(Some(how)) => {
                let witness = serde_json::to_string(subs).unwrap();
                ctx.violate(inv, "accepted", format!("corrupted address {:?} (substitutions {}) parsed: {}", s, witness, how));
            }
            Err(msg) => ctx.violate("C10.panic", &format!("Address::parse|{}", crate::ctx::panic_key(&msg)), format!("parsing {:?} panicked: {}", s, msg)),
        }
    }
}

impl World for AddrWorld {
    type Case = Case;
    fn name(&self) -> &'static str {
        "addr"
    }
    fn generate(&self, p: &mut Prng, scenario: &str, run: u64) -> Case {
        match scenario {
            "singles" => Case { spec: draw_spec(p), faults: FaultSet::AllDataSingles, other_case: p.chance(1, 8) },
            "hrp" => Case { spec: draw_spec(p), faults: FaultSet::AllHrp, other_case: false },
            "pairs-sampled" => Case { spec: draw_spec(p), faults: FaultSet::SampledDataPairs { seed: p.u64(), count: 4000 }, other_case: p.chance(1, 16) },
            // complete enumeration: run k is the k-th (representative address, first position) pair
            "pairs-exhaustive" => exhaustive_cases()[run as usize].clone(),
            _ => panic!("unknown scenario {}", scenario),
        }
    }
    fn execute(&self, case: &Case, ctx: &mut Ctx) {
        let s = build(&case.spec);
        let orig = s.as_bytes();
        // fault-free delivery must parse: otherwise the fault results mean nothing
        let ok = Address::from_str(&s).is_ok();
        ctx.check(ok, "C17.baseline", "unparsed", || format!("uncorrupted address {} does not parse", s));
        if !ok {
            return;
        }
        // the fault results mean little if the code itself is not the specified one: the formatted blinded
        // address must carry the checksum the Elements specification defines for its witness version
        if case.spec.blinded {
            let want = if case.spec.version == 0 { 1u64 } else { 0x455_972a_3350_f7a1 };
            let got = blech32_polymod_ref(&s);
            ctx.check(got == Some(want), "C17.baseline", "reference-checksum", || format!("address {} does not carry the specified blech32{} checksum (reference residue {:x?}, expected {:x})", s, if case.spec.version == 0 { "" } else { "m" }, got, want));
        }
        let sep = s.rfind('1').expect("separator");
        let data_start = sep + 1;
        let n = orig.len();
        let alpha: Vec<u8> = ALPHABET
            .iter()
            .map(|c| if case.spec.upper != case.other_case { c.to_ascii_uppercase() } else { *c })
            .collect();
        ctx.sig_n("ver", case.spec.version as u64);
        ctx.sig_n("len", n as u64);
        ctx.sig_n("bl", case.spec.blinded as u64 + 2 * case.spec.upper as u64 + 4 * case.other_case as u64);
        match &case.faults {
            FaultSet::AllDataSingles => {
                ctx.sig("singles");
                let mut k = 0;
                for pos in data_start..n {
                    for c in &alpha {
                        // (with other_case the same symbol in the other letter case IS a changed string: mixed case)
                        if *c == orig[pos] || (!case.other_case && c.eq_ignore_ascii_case(&orig[pos])) {
                            continue;
                        }
                        self.try_one(ctx, orig, &[(pos, *c)], "C17.data1");
                        k += 1;
                    }
                }
                ctx.fault("subst1_data", k);
            }
            FaultSet::DataPairsFrom { i } => {
                ctx.sig_n("pairs_from", *i as u64);
                let i = data_start + *i;
                let mut k = 0;
                if i < n {
                    for j in i + 1..n {
                        for c1 in &alpha {
                            if c1.eq_ignore_ascii_case(&orig[i]) {
                                continue;
                            }
                            for c2 in &alpha {
                                if c2.eq_ignore_ascii_case(&orig[j]) {
                                    continue;
                                }
                                self.try_one(ctx, orig, &[(i, *c1), (j, *c2)], "C17.data2");
                                k += 1;
                            }
                        }
                    }
                }
                ctx.fault("subst2_data", k);
            }
            FaultSet::SampledDataPairs { seed, count } => {
                ctx.sig("pairs_sampled");
                let mut p = Prng::from_u64(*seed);
                let mut k = 0;
                for _ in 0..*count {
                    let i = p.urange(data_start, n - 1);
                    let j = p.urange(data_start, n - 1);
                    if i == j {
                        continue;
                    }
                    let c1 = *p.pick(&alpha);
                    let c2 = *p.pick(&alpha);
                    if c1 == orig[i] || c2 == orig[j] || (!case.other_case && (c1.eq_ignore_ascii_case(&orig[i]) || c2.eq_ignore_ascii_case(&orig[j]))) {
                        continue;
                    }
                    self.try_one(ctx, orig, &[(i, c1), (j, c2)], "C17.data2");
                    k += 1;
                }
                ctx.fault("subst2_data", k);
            }
            FaultSet::AllHrp => {
                ctx.sig("hrp");
                let mut k1 = 0;
                let mut k2 = 0;
                for i in 0..sep {
                    for c in 33u8..127 {
                        if c == orig[i] {
                            continue;
                        }
                        self.try_one(ctx, orig, &[(i, c)], "C17.hrp1");
                        k1 += 1;
                    }
                }
                for i in 0..sep {
                    for j in i + 1..sep {
                        for c1 in 33u8..127 {
                            if c1 == orig[i] {
                                continue;
                            }
                            for c2 in 33u8..127 {
                                if c2 == orig[j] {
                                    continue;
                                }
                                self.try_one(ctx, orig, &[(i, c1), (j, c2)], "C17.hrp2");
                                k2 += 1;
                            }
                        }
                    }
                }
                ctx.fault("subst1_hrp", k1);
                ctx.fault("subst2_hrp", k2);
            }
            FaultSet::Explicit(subs) => {
                ctx.sig("explicit");
                let inv = match (subs.len(), subs.iter().all(|(p, _)| *p < sep)) {
                    (1, true) => "C17.hrp1",
                    (_, true) => "C17.hrp2",
                    (1, false) => "C17.data1",
                    _ => "C17.data2",
                };
                if subs.iter().all(|(p, _)| *p < n) {
                    self.try_one(ctx, orig, subs, inv);
                    ctx.fault("subst_explicit", 1);
                }
            }
        }
        ctx.ev("addr.done", ctx.steps);
    }
    fn shrink(&self, case: &Case, v: &Violation) -> Vec<Case> {
        // the violation detail carries the substitution list; pin it
        if matches!(case.faults, FaultSet::Explicit(_)) {
            return Vec::new();
        }
        let Some(start) = v.detail.find("(substitutions ") else { return Vec::new() };
        let rest = &v.detail[start + "(substitutions ".len()..];
        let Some(end) = rest.find(") parsed") else { return Vec::new() };
        match serde_json::from_str::<Vec<(usize, u8)>>(&rest[..end]) {
            Ok(subs) => vec![Case { spec: case.spec.clone(), faults: FaultSet::Explicit(subs), other_case: case.other_case }],
            Err(_) => Vec::new(),
        }
    }
}

pub fn exhaustive_cases() -> &'static Vec<Case> {
    static CASES: std::sync::OnceLock<Vec<Case>> = std::sync::OnceLock::new();
    CASES.get_or_init(build_exhaustive_cases)
}

fn build_exhaustive_cases() -> Vec<Case> {
    let mut out = Vec::new();
    for spec in representatives() {
        let s = build(&spec);
        let data_len = s.len() - (s.rfind('1').unwrap() + 1);
        for i in 0..data_len {
            out.push(Case { spec: spec.clone(), faults: FaultSet::DataPairsFrom { i }, other_case: false });
        }
    }
    out
}

