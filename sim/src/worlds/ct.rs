//! World `ct` (C04, C05, C10): wallet builds and blinds -> medium/relay -> verifier and receivers.
//! The RNG handed to the blinder is a seam (SimRng personalities); the blinded transaction travels
//! serialized through SimWriter/SimReader; the relay injects exactly one tamper per delivery.

use crate::ctx::{Ctx, Violation};
use crate::gen::{self, pool, secp};
use crate::prng::Prng;
use crate::runner::World;
use crate::seams::{IoPlan, Personality, RngPlan, SimReader, SimRng, SimWriter};
use elements::confidential::{Asset, AssetBlindingFactor, Nonce, Value, ValueBlindingFactor};
use elements::encode::{Decodable, Encodable};
use elements::secp256k1_zkp::{PublicKey, SecretKey};
use elements::{AssetId, AssetIssuance, LockTime, OutPoint, Script, Sequence, Transaction, TxIn, TxOut, TxOutSecrets, TxOutWitness};
use serde::{Deserialize, Serialize};
use std::collections::BTreeMap;

#[derive(Clone, Debug, Serialize, Deserialize, PartialEq, Eq)]
pub struct CtSpec {
    pub seed: u64,
    pub n_in: usize,
    pub n_assets: usize,
    /// extra splits of the per-asset totals into more outputs
    pub extra_outputs: usize,
    pub conf_inputs: bool,
    pub issuance: bool,
    pub reissuance: bool,
    pub big_values: bool,
    pub fee: bool,
    /// bit k set: the k-th non-fee output is marked for blinding (at least one is always marked)
    pub mark_mask: u32,
    pub unmarked_opreturn: bool,
    /// (tamper scenario) two unmarked outputs that the relay's base transaction carries with an explicit asset and a
    /// committed value (blinders r and -r): partially blinded outputs that Transaction::blind cannot produce
    #[serde(default)]
    pub partial_gadget: bool,
    /// (tamper scenario) an issuance whose amount (or inflation keys) is committed while the other stays explicit
    #[serde(default)]
    pub conf_issuance: bool,
}

impl CtSpec {
    pub fn draw(p: &mut Prng) -> CtSpec {
        let small = p.chance(2, 3);
        CtSpec {
            seed: p.u64(),
            n_in: if small { p.urange(1, 2) } else { p.urange(1, 6) },
            n_assets: if p.chance(1, 2) { 1 } else { p.urange(1, 3) },
            extra_outputs: if small { p.urange(0, 2) } else { p.urange(0, 4) },
            conf_inputs: p.chance(2, 3),
            issuance: p.chance(1, 3),
            reissuance: p.chance(1, 4),
            big_values: p.chance(1, 3),
            fee: p.chance(3, 4),
            mark_mask: p.u32(),
            unmarked_opreturn: p.chance(1, 4),
            partial_gadget: false,
            conf_issuance: false,
        }
    }
    pub fn shrinks(&self) -> Vec<CtSpec> {
        let mut v = Vec::new();
        let mut push = |s: CtSpec| {
            if s != *self {
                v.push(s)
            }
        };
        push(CtSpec { n_in: (self.n_in / 2).max(1), ..self.clone() });
        push(CtSpec { n_in: self.n_in.saturating_sub(1).max(1), ..self.clone() });
        push(CtSpec { n_assets: 1, ..self.clone() });
        push(CtSpec { extra_outputs: self.extra_outputs / 2, ..self.clone() });
        push(CtSpec { extra_outputs: self.extra_outputs.saturating_sub(1), ..self.clone() });
        push(CtSpec { conf_inputs: false, ..self.clone() });
        push(CtSpec { issuance: false, ..self.clone() });
        push(CtSpec { reissuance: false, ..self.clone() });
        push(CtSpec { big_values: false, ..self.clone() });
        push(CtSpec { fee: false, ..self.clone() });
        push(CtSpec { mark_mask: 1, ..self.clone() });
        push(CtSpec { mark_mask: u32::MAX, ..self.clone() });
        push(CtSpec { unmarked_opreturn: false, ..self.clone() });
        push(CtSpec { conf_issuance: false, ..self.clone() });
        push(CtSpec { partial_gadget: false, conf_issuance: false, ..self.clone() });
        v
    }
}

pub struct Workload {
    pub tx: Transaction,
    pub spent: Vec<TxOut>,
    /// secrets in the order the blinder wants them: each input's own, followed by its issuance pseudo-inputs
    pub secrets: Vec<TxOutSecrets>,
    /// per output: receiver blinding secret key if marked
    pub receivers: Vec<Option<SecretKey>>,
    /// per output: original (asset, value)
    pub originals: Vec<(AssetId, u64)>,
    pub domain_size: usize,
    /// partially-blinded gadget: (output index 1, output index 2, asset)
    pub gadget: Option<(usize, usize, AssetId)>,
    /// issuances to commit after blinding: (input index, true = the inflation keys, false = the amount)
    pub conf_iss: Vec<(usize, bool)>,
}

pub fn addressable_script(p: &mut Prng) -> Script {
    match p.below(7) {
        5 | 6 => {
            // witness program of version 1..16 (OP_1..OP_16) with a 2..40 byte program
            let ver = p.urange(1, 16) as u8;
            let len = if p.coin() { 32 } else { p.urange(2, 40) };
            let mut v = vec![0x50 + ver, len as u8];
            v.extend(p.bytes(len));
            Script::from(v)
        }
        0 => {
            let mut v = vec![0x76, 0xa9, 0x14];
            v.extend(p.bytes(20));
            v.extend([0x88, 0xac]);
            Script::from(v)
        }
        1 => {
            let mut v = vec![0xa9, 0x14];
            v.extend(p.bytes(20));
            v.push(0x87);
            Script::from(v)
        }
        2 => {
            let mut v = vec![0x00, 0x14];
            v.extend(p.bytes(20));
            Script::from(v)
        }
        3 => {
            let mut v = vec![0x00, 0x20];
            v.extend(p.bytes(32));
            Script::from(v)
        }
        _ => {
            let mut v = vec![0x51, 0x20];
            v.extend(p.bytes(32));
            Script::from(v)
        }
    }
}

/// The script of an output that is going to be blinded: mostly an address template, one time in six a legal script
/// for which no address exists (pay-to-pubkey, bare multisig, a small custom script). Nothing in the property ties
/// blinding to address templates.
pub fn blindable_script(p: &mut Prng) -> Script {
    if !p.chance(1, 6) {
        return addressable_script(p);
    }
    let pk = |p: &mut Prng| p.pick(&pool().pks).serialize().to_vec();
    let mut v = Vec::new();
    match p.below(4) {
        3 => {
            // a data carrier with a positive amount: unusual, legal
            return Script::new_op_return(&p.bytes(12));
        }
        0 => {
            // <33-byte key> OP_CHECKSIG
            v.push(33);
            v.extend(pk(p));
            v.push(0xac);
        }
        1 => {
            // OP_1 <key> <key> OP_2 OP_CHECKMULTISIG
            v.push(0x51);
            for _ in 0..2 {
                v.push(33);
                v.extend(pk(p));
            }
            v.extend([0x52, 0xae]);
        }
        _ => {
            // OP_SHA256 <32 bytes> OP_EQUAL
            v.extend([0xa8, 0x20]);
            v.extend(p.bytes(32));
            v.push(0x87);
        }
    }
    Script::from(v)
}

fn amount(p: &mut Prng, big: bool) -> u64 {
    match p.below(if big { 5 } else { 3 }) {
        0 => 1 + p.below(10),
        1 => 1 + p.below(100_000),
        2 => 1 + p.below(21_000_000 * 100_000_000),
        3 => (1u64 << 52) - 2 + p.below(5),
        _ => (1u64 << 52) + p.below(1u64 << 59),
    }
}

/// split `total` (>= parts) into `parts` positive amounts
fn split(p: &mut Prng, total: u64, parts: usize) -> Vec<u64> {
    let mut out = Vec::new();
    let mut rest = total;
    for k in 0..parts {
        let left = (parts - k - 1) as u64;
        if left == 0 {
            out.push(rest);
        } else {
            let max = rest - left;
            let v = match p.below(3) {
                0 => 1,
                1 => 1 + p.below(max),
                _ => max - p.below(max.min(3)),
            };
            let v = v.clamp(1, max);
            out.push(v);
            rest -= v;
        }
    }
    out
}

pub fn build(spec: &CtSpec) -> Workload {
    let secp = secp();
    let mut p = Prng::from_u64(spec.seed);
    let assets: Vec<AssetId> = (0..spec.n_assets.max(1)).map(|_| gen::asset_id(&mut p)).collect();
    let mut totals: BTreeMap<AssetId, u64> = BTreeMap::new();
    let mut inputs = Vec::new();
    let mut spent = Vec::new();
    let mut secrets = Vec::new();
    let mut large_used = 0;
    let mut conf_iss: Vec<(usize, bool)> = Vec::new();
    for k in 0..spec.n_in.max(1) {
        // every asset is spent at least once when there are enough inputs
        let asset = if k < assets.len() { assets[k] } else { *p.pick(&assets) };
        let mut v = amount(&mut p, spec.big_values && large_used < 3);
        if v >= 1 << 52 {
            large_used += 1;
        }
        let t = totals.entry(asset).or_insert(0);
        if *t > (1 << 62) {
            v = 1 + p.below(1000);
        }
        *t += v;
        // explicit / fully confidential / explicit asset with committed value / committed asset with zero value blinder
        let kind = if spec.conf_inputs { p.below(6) } else { 0 };
        let (abf, vbf) = match kind {
            0 | 1 => (AssetBlindingFactor::zero(), ValueBlindingFactor::zero()),
            2 => (AssetBlindingFactor::zero(), gen::vbf(&mut p)),
            3 => (gen::abf(&mut p), ValueBlindingFactor::zero()),
            _ => (gen::abf(&mut p), gen::vbf(&mut p)),
        };
        let conf = kind >= 2;
        let utxo = TxOut {
            asset: if kind >= 3 { Asset::new_confidential(secp, asset, abf) } else { Asset::Explicit(asset) },
            value: if conf { Value::new_confidential_from_assetid(secp, v, asset, vbf, abf) } else { Value::Explicit(v) },
            nonce: Nonce::Null,
            script_pubkey: addressable_script(&mut p),
            witness: TxOutWitness::default(),
        };
        spent.push(utxo);
        secrets.push(TxOutSecrets::new(asset, abf, v, vbf));
        let mut txin = TxIn {
            previous_output: OutPoint::new(gen::txid(&mut p), p.below(8) as u32),
            is_pegin: false,
            script_sig: Script::new(),
            sequence: Sequence::MAX,
            asset_issuance: AssetIssuance::null(),
            witness: Default::default(),
        };
        // one explicit input in six is a peg-in with a well-formed peg-in witness (amount verification must keep taking the
        // spent asset and value from the caller's spent outputs, whatever the witness says)
        if !conf && p.chance(1, 6) {
            txin.is_pegin = true;
            let wv = if p.coin() { v } else { p.u64() };
            let mut proof = p.bytes(80);
            let extra = p.usize_below(40);
            proof.extend(p.bytes(extra));
            txin.witness.pegin_witness = vec![wv.to_le_bytes().to_vec(), if p.coin() { elements::encode::serialize(&asset) } else { p.bytes(32) }, p.bytes(32), addressable_script(&mut p).to_bytes(), p.bytes(60), proof];
        }
        let issue = spec.issuance && p.chance(1, 2);
        let reissue = !issue && spec.reissuance && p.chance(1, 2);
        if issue || reissue {
            // amount only / amount and keys / keys only (a token-only issuance)
            let shape = if issue { p.below(3) } else { 0 };
            let amt_opt = if shape == 2 { None } else { Some(amount(&mut p, false)) };
            let keys = if shape >= 1 { Some(1 + p.below(5)) } else { None };
            txin.asset_issuance = AssetIssuance {
                asset_blinding_nonce: if reissue { *p.pick(&pool().tweaks) } else { gen::ZERO_TWEAK },
                asset_entropy: p.arr32(),
                amount: amt_opt.map(Value::Explicit).unwrap_or(Value::Null),
                inflation_keys: keys.map(Value::Explicit).unwrap_or(Value::Null),
            };
            // in the tamper scenario the amount of an amount+keys issuance may be committed after blinding: the token
            // then has the "blinded issuance" flavour from the start
            let commit_amount = spec.conf_issuance && spec.partial_gadget && shape == 1 && p.coin();
            let commit_keys = spec.conf_issuance && spec.partial_gadget && shape == 1 && !commit_amount;
            if commit_amount {
                conf_iss.push((inputs.len(), false));
            }
            if commit_keys {
                conf_iss.push((inputs.len(), true));
            }
            let (asset_id, token_id) = issuance_ids_ref_with(&txin, commit_amount);
            if let Some(amt) = amt_opt {
                *totals.entry(asset_id).or_insert(0) += amt;
                secrets.push(TxOutSecrets::new(asset_id, AssetBlindingFactor::zero(), amt, ValueBlindingFactor::zero()));
            }
            if let Some(kv) = keys {
                *totals.entry(token_id).or_insert(0) += kv;
                secrets.push(TxOutSecrets::new(token_id, AssetBlindingFactor::zero(), kv, ValueBlindingFactor::zero()));
            }
            // now and then another input spends an explicit output of the very asset issued here: the same generator
            // then appears twice in the surjection domain (once as a spent output, once as an issuance)
            if amt_opt.is_some() && p.chance(1, 4) {
                inputs.push(txin.clone());
                let v2 = 1 + p.below(100_000);
                *totals.entry(asset_id).or_insert(0) += v2;
                spent.push(TxOut { asset: Asset::Explicit(asset_id), value: Value::Explicit(v2), nonce: Nonce::Null, script_pubkey: addressable_script(&mut p), witness: TxOutWitness::default() });
                secrets.push(TxOutSecrets::new(asset_id, AssetBlindingFactor::zero(), v2, ValueBlindingFactor::zero()));
                txin = TxIn { previous_output: OutPoint::new(gen::txid(&mut p), p.below(8) as u32), ..Default::default() };
            }
        }
        inputs.push(txin);
    }
    // ... or an EARLIER input does: a plain explicit input of an issued asset is put in front of everything
    if p.chance(1, 4) {
        if let Some(j) = inputs.iter().position(|i| i.has_issuance() && !i.asset_issuance.amount.is_null()) {
            let will_blind = conf_iss.iter().any(|(k, keys)| *k == j && !*keys);
            let (asset_id, _) = issuance_ids_ref_with(&inputs[j], will_blind);
            let v2 = 1 + p.below(100_000);
            *totals.entry(asset_id).or_insert(0) += v2;
            inputs.insert(0, TxIn { previous_output: OutPoint::new(gen::txid(&mut p), p.below(8) as u32), ..Default::default() });
            spent.insert(0, TxOut { asset: Asset::Explicit(asset_id), value: Value::Explicit(v2), nonce: Nonce::Null, script_pubkey: addressable_script(&mut p), witness: TxOutWitness::default() });
            secrets.insert(0, TxOutSecrets::new(asset_id, AssetBlindingFactor::zero(), v2, ValueBlindingFactor::zero()));
            for c in conf_iss.iter_mut() {
                c.0 += 1;
            }
        }
    }
    // the gadget's own explicit input (its value goes to the two gadget outputs, not into the split totals)
    let gadget_vals = if spec.partial_gadget {
        let (g1, g2) = (amount(&mut p, false), amount(&mut p, false));
        let a = assets[0];
        spent.push(TxOut { asset: Asset::Explicit(a), value: Value::Explicit(g1 + g2), nonce: Nonce::Null, script_pubkey: addressable_script(&mut p), witness: TxOutWitness::default() });
        secrets.push(TxOutSecrets::new(a, AssetBlindingFactor::zero(), g1 + g2, ValueBlindingFactor::zero()));
        inputs.push(TxIn { previous_output: OutPoint::new(gen::txid(&mut p), 0), ..Default::default() });
        Some((g1, g2, a))
    } else {
        None
    };
    let domain_size = secrets.len();
    // outputs: split every asset total; optionally carve a fee out of the first asset
    let mut outs: Vec<(AssetId, u64, bool)> = Vec::new(); // (asset, value, is_fee)
    let mut extra = spec.extra_outputs;
    let first_asset = assets[0];
    for (asset, total) in totals.iter() {
        let mut total = *total;
        if spec.fee && *asset == first_asset && total >= 2 {
            let fee = 1 + p.below((total - 1).min(5000));
            outs.push((*asset, fee, true));
            total -= fee;
        }
        let mut parts = 1;
        while extra > 0 && (parts as u64) < total && p.coin() {
            parts += 1;
            extra -= 1;
        }
        for v in split(&mut p, total, parts) {
            outs.push((*asset, v, false));
        }
    }
    p.shuffle(&mut outs);
    let n_nonfee = outs.iter().filter(|o| !o.2).count();
    let mut mask = spec.mark_mask;
    if n_nonfee > 0 && (mask & ((1u64 << n_nonfee.min(32)) - 1) as u32) == 0 {
        mask |= 1 << (spec.seed as usize % n_nonfee.min(32));
    }
    let mut output = Vec::new();
    let mut receivers = Vec::new();
    let mut originals = Vec::new();
    let mut k = 0;
    for (asset, value, is_fee) in outs {
        originals.push((asset, value));
        if is_fee {
            let mut fee = TxOut::new_fee(value, asset);
            // a fee output may carry a nonce (a key, even): it stays a fee output and is never blinded
            if p.chance(1, 5) {
                fee.nonce = if p.coin() { Nonce::Confidential(*p.pick(&pool().pks)) } else { Nonce::Explicit(p.arr32()) };
            }
            output.push(fee);
            receivers.push(None);
            continue;
        }
        let marked = mask & (1 << (k % 32)) != 0;
        k += 1;
        if marked {
            // one marked output in five goes to the receiver of the previous marked one (same blinding key)
            let prev: Option<SecretKey> = receivers.iter().rev().flatten().next().copied();
            let sk = match prev {
                Some(k) if p.chance(1, 5) => k,
                _ => gen::secret_key(&mut p),
            };
            let pk = PublicKey::from_secret_key(secp, &sk);
            output.push(TxOut { asset: Asset::Explicit(asset), value: Value::Explicit(value), nonce: Nonce::Confidential(pk), script_pubkey: blindable_script(&mut p), witness: TxOutWitness::default() });
            receivers.push(Some(sk));
        } else {
            let spk = if spec.unmarked_opreturn && p.coin() { Script::new_op_return(&p.bytes(8)) } else { addressable_script(&mut p) };
            // an unmarked output may carry an explicit (01-prefixed) nonce: it is not a blinding key
            let nonce = if p.chance(1, 8) { Nonce::Explicit(p.arr32()) } else { Nonce::Null };
            output.push(TxOut { asset: Asset::Explicit(asset), value: Value::Explicit(value), nonce, script_pubkey: spk, witness: TxOutWitness::default() });
            receivers.push(None);
        }
    }
    let mut gadget = None;
    if let Some((g1, g2, a)) = gadget_vals {
        for g in [g1, g2] {
            output.push(TxOut { asset: Asset::Explicit(a), value: Value::Explicit(g), nonce: Nonce::Null, script_pubkey: addressable_script(&mut p), witness: TxOutWitness::default() });
            receivers.push(None);
            originals.push((a, g));
        }
        gadget = Some((output.len() - 2, output.len() - 1, a));
    }
    let tx = Transaction { version: 2, lock_time: LockTime::ZERO, input: inputs, output };
    Workload { tx, spent, secrets, receivers, originals, domain_size, gadget, conf_iss }
}

/// Asset and token id of an input's issuance, derived from the definition (entropy from the plain outpoint
/// and contract hash for a new issuance, carried entropy for a reissuance; token flavour by whether the
/// issuance amount is blinded) rather than through TxIn::issuance_ids.
pub fn issuance_ids_ref(txin: &TxIn) -> (AssetId, AssetId) {
    issuance_ids_ref_with(txin, false)
}

/// `will_be_blinded`: the issuance amount is going to be committed (token id of the blinded flavour)
pub fn issuance_ids_ref_with(txin: &TxIn, will_be_blinded: bool) -> (AssetId, AssetId) {
    use elements::{AssetEntropy, ContractHash};
    let iss = &txin.asset_issuance;
    let entropy = if iss.asset_blinding_nonce == gen::ZERO_TWEAK {
        AssetId::generate_asset_entropy(txin.previous_output, ContractHash::from_byte_array(iss.asset_entropy))
    } else {
        AssetEntropy::from_byte_array(iss.asset_entropy)
    };
    let blinded = will_be_blinded || matches!(iss.amount, Value::Confidential(_));
    (AssetId::from_entropy(entropy), AssetId::reissuance_token_from_entropy(entropy, blinded))
}

/// Elements' IsUnspendable, written from its definition: OP_RETURN first, or longer than the maximal
/// script size of 10 000 bytes; plus the empty script of a fee output.
pub fn unspendable_ref(s: &Script) -> bool {
    let b = s.as_bytes();
    b.is_empty() || b[0] == 0x6a || b.len() > 10_000
}

#[derive(Clone, Debug, Serialize, Deserialize, PartialEq, Eq)]
pub enum Tamper {
    ExplicitAmount { out: usize, delta: i64 },
    ExplicitAsset { out: usize },
    ValueCommReplace { out: usize, pool: usize },
    AssetCommReplace { out: usize, pool: usize },
    ValueCommSwap { a: usize, b: usize },
    AssetCommSwap { a: usize, b: usize },
    RangeproofRemove { out: usize },
    RangeproofSwap { a: usize, b: usize },
    RangeproofForeign { out: usize, pool: usize },
    RangeproofCorrupt { out: usize, at_1024: u32, bit: u8 },
    SurjectionRemove { out: usize },
    SurjectionSwap { a: usize, b: usize },
    SurjectionForeign { out: usize, pool: usize },
    SurjectionCorrupt { out: usize, at_1024: u32, bit: u8 },
    Script { out: usize, seed: u64 },
    IssuanceAmount { input: usize, keys: bool, delta: i64 },
    PrevoutValue { input: usize, delta: i64, pool: usize },
    PrevoutAsset { input: usize, pool: usize },
    PrevoutLen { longer: bool },
    /// a commitment (or explicit field) replaced by the null value
    AssetNull { out: usize },
    ValueNull { out: usize },
}

impl Tamper {
    pub fn class(&self) -> &'static str {
        match self {
            Tamper::ExplicitAmount { .. } => "amount",
            Tamper::ExplicitAsset { .. } => "asset",
            Tamper::ValueCommReplace { .. } | Tamper::AssetCommReplace { .. } => "commitment.replace",
            Tamper::ValueCommSwap { .. } | Tamper::AssetCommSwap { .. } => "commitment.swap",
            Tamper::RangeproofRemove { .. } => "rangeproof.remove",
            Tamper::RangeproofSwap { .. } | Tamper::RangeproofForeign { .. } => "rangeproof.swap",
            Tamper::RangeproofCorrupt { .. } => "rangeproof.corrupt",
            Tamper::SurjectionRemove { .. } => "surjection.remove",
            Tamper::SurjectionSwap { .. } | Tamper::SurjectionForeign { .. } => "surjection.swap",
            Tamper::SurjectionCorrupt { .. } => "surjection.corrupt",
            Tamper::Script { .. } => "script",
            Tamper::IssuanceAmount { .. } => "issuance.amount",
            Tamper::PrevoutValue { .. } | Tamper::PrevoutAsset { .. } => "prevout.differs",
            Tamper::PrevoutLen { .. } => "prevout.len",
            Tamper::AssetNull { .. } | Tamper::ValueNull { .. } => "commitment.replace",
        }
    }
    pub fn draw(p: &mut Prng) -> Tamper {
        let out = p.usize_below(64);
        let a = p.usize_below(64);
        let b = p.usize_below(64);
        let pl = p.usize_below(64);
        let delta = match p.below(4) {
            0 => 1,
            1 => -1,
            2 => 1 + p.below(1 << 40) as i64,
            _ => -(1 + p.below(1000) as i64),
        };
        match p.below(21) {
            19 => Tamper::AssetNull { out },
            20 => Tamper::ValueNull { out },
            0 => Tamper::ExplicitAmount { out, delta },
            1 => Tamper::ExplicitAsset { out },
            2 => Tamper::ValueCommReplace { out, pool: pl },
            3 => Tamper::AssetCommReplace { out, pool: pl },
            4 => Tamper::ValueCommSwap { a, b },
            5 => Tamper::AssetCommSwap { a, b },
            6 => Tamper::RangeproofRemove { out },
            7 => Tamper::RangeproofSwap { a, b },
            8 => Tamper::RangeproofForeign { out, pool: pl },
            9 => Tamper::RangeproofCorrupt { out, at_1024: p.below(1024) as u32, bit: p.below(8) as u8 },
            10 => Tamper::SurjectionRemove { out },
            11 => Tamper::SurjectionSwap { a, b },
            12 => Tamper::SurjectionForeign { out, pool: pl },
            13 => Tamper::SurjectionCorrupt { out, at_1024: p.below(1024) as u32, bit: p.below(8) as u8 },
            14 => Tamper::Script { out, seed: p.u64() },
            15 => Tamper::IssuanceAmount { input: a, keys: p.coin(), delta },
            16 => Tamper::PrevoutValue { input: a, delta, pool: pl },
            17 => Tamper::PrevoutAsset { input: a, pool: pl },
            _ => Tamper::PrevoutLen { longer: p.coin() },
        }
    }
}

fn add_delta(v: u64, delta: i64) -> u64 {
    let r = if delta >= 0 { v.wrapping_add(delta as u64) } else { v.wrapping_sub((-delta) as u64) };
    if r == v || r == 0 {
        v.wrapping_add(1).max(1)
    } else {
        r
    }
}

/// Apply one tamper to (tx, spent). Returns false if it is not applicable to this transaction
/// (or would not change anything).
pub fn apply_tamper(t: &Tamper, tx: &mut Transaction, spent: &mut Vec<TxOut>, domain_size: usize) -> bool {
    let pl = pool();
    let conf_outs: Vec<usize> = (0..tx.output.len()).filter(|i| tx.output[*i].value.is_confidential() && tx.output[*i].asset.is_confidential()).collect();
    let expl_outs: Vec<usize> = (0..tx.output.len()).filter(|i| tx.output[*i].value.is_explicit() && tx.output[*i].asset.is_explicit()).collect();
    // outputs whose value is committed (whatever the asset): range-proof, script and value-commitment tampers
    let value_conf_outs: Vec<usize> = (0..tx.output.len()).filter(|i| tx.output[*i].value.is_confidential()).collect();
    // outputs whose asset is confidential (including zero-value unspendable ones): surjection / asset tampers
    let asset_conf_outs: Vec<usize> = (0..tx.output.len()).filter(|i| tx.output[*i].asset.is_confidential()).collect();
    let pick = |v: &Vec<usize>, k: usize| if v.is_empty() { None } else { Some(v[k % v.len()]) };
    let pick2 = |v: &Vec<usize>, a: usize, b: usize| {
        if v.len() < 2 {
            None
        } else {
            let x = a % v.len();
            let mut y = b % v.len();
            if x == y {
                y = (y + 1) % v.len();
            }
            Some((v[x], v[y]))
        }
    };
    match t {
        Tamper::ExplicitAmount { out, delta } => {
            let Some(i) = pick(&expl_outs, *out) else { return false };
            let v = tx.output[i].value.explicit().unwrap();
            tx.output[i].value = Value::Explicit(add_delta(v, *delta));
            true
        }
        Tamper::ExplicitAsset { out } => {
            let Some(i) = pick(&expl_outs, *out) else { return false };
            let mut a = tx.output[i].asset.explicit().unwrap().to_byte_array();
            a[0] ^= 1;
            tx.output[i].asset = Asset::Explicit(AssetId::from_byte_array(a));
            true
        }
        Tamper::ValueCommReplace { out, pool } => {
            let Some(i) = pick(&value_conf_outs, *out) else { return false };
            let c = pl.comms[*pool % pl.comms.len()];
            if Value::Confidential(c) == tx.output[i].value {
                return false;
            }
            tx.output[i].value = Value::Confidential(c);
            true
        }
        Tamper::AssetCommReplace { out, pool } => {
            let Some(i) = pick(&asset_conf_outs, *out) else { return false };
            let g = pl.gens[*pool % pl.gens.len()];
            if Asset::Confidential(g) == tx.output[i].asset {
                return false;
            }
            tx.output[i].asset = Asset::Confidential(g);
            true
        }
        Tamper::ValueCommSwap { a, b } => {
            let Some((x, y)) = pick2(&value_conf_outs, *a, *b) else { return false };
            if tx.output[x].value == tx.output[y].value {
                return false;
            }
            let t = tx.output[x].value;
            tx.output[x].value = tx.output[y].value;
            tx.output[y].value = t;
            true
        }
        Tamper::AssetCommSwap { a, b } => {
            let Some((x, y)) = pick2(&conf_outs, *a, *b) else { return false };
            if tx.output[x].asset == tx.output[y].asset {
                return false;
            }
            let t = tx.output[x].asset;
            tx.output[x].asset = tx.output[y].asset;
            tx.output[y].asset = t;
            true
        }
        Tamper::RangeproofRemove { out } => {
            let Some(i) = pick(&value_conf_outs, *out) else { return false };
            tx.output[i].witness.rangeproof.take().is_some()
        }
        Tamper::RangeproofSwap { a, b } => {
            let Some((x, y)) = pick2(&value_conf_outs, *a, *b) else { return false };
            if tx.output[x].witness.rangeproof == tx.output[y].witness.rangeproof {
                return false;
            }
            let t = tx.output[x].witness.rangeproof.take();
            tx.output[x].witness.rangeproof = tx.output[y].witness.rangeproof.take();
            tx.output[y].witness.rangeproof = t;
            true
        }
        Tamper::RangeproofForeign { out, pool } => {
            let Some(i) = pick(&value_conf_outs, *out) else { return false };
            tx.output[i].witness.rangeproof = Some(Box::new(pl.rangeproofs[*pool % pl.rangeproofs.len()].clone()));
            true
        }
        Tamper::RangeproofCorrupt { out, at_1024, bit } => {
            let Some(i) = pick(&value_conf_outs, *out) else { return false };
            let Some(rp) = &tx.output[i].witness.rangeproof else { return false };
            let mut b = elements::secp256k1_zkp::RangeProof::serialize(rp);
            let pos = (b.len() as u64 * *at_1024 as u64 / 1024) as usize;
            b[pos] ^= 1 << bit;
            match elements::secp256k1_zkp::RangeProof::from_slice(&b) {
                Ok(r) => {
                    tx.output[i].witness.rangeproof = Some(Box::new(r));
                    true
                }
                // the decoder already refuses it: rejection happened one step earlier
                Err(_) => false,
            }
        }
        Tamper::SurjectionRemove { out } => {
            let Some(i) = pick(&asset_conf_outs, *out) else { return false };
            tx.output[i].witness.surjection_proof.take().is_some()
        }
        Tamper::SurjectionSwap { a, b } => {
            let Some((x, y)) = pick2(&asset_conf_outs, *a, *b) else { return false };
            if tx.output[x].witness.surjection_proof == tx.output[y].witness.surjection_proof {
                return false;
            }
            let t = tx.output[x].witness.surjection_proof.take();
            tx.output[x].witness.surjection_proof = tx.output[y].witness.surjection_proof.take();
            tx.output[y].witness.surjection_proof = t;
            true
        }
        Tamper::SurjectionForeign { out, pool } => {
            let Some(i) = pick(&asset_conf_outs, *out) else { return false };
            tx.output[i].witness.surjection_proof = Some(Box::new(pl.surjproofs[*pool % pl.surjproofs.len()].clone()));
            true
        }
        Tamper::SurjectionCorrupt { out, at_1024, bit } => {
            let Some(i) = pick(&asset_conf_outs, *out) else { return false };
            let Some(sp) = &tx.output[i].witness.surjection_proof else { return false };
            let mut b = elements::secp256k1_zkp::SurjectionProof::serialize(sp);
            let pos = (b.len() as u64 * *at_1024 as u64 / 1024) as usize;
            b[pos] ^= 1 << bit;
            match elements::secp256k1_zkp::SurjectionProof::from_slice(&b) {
                Ok(r) => {
                    tx.output[i].witness.surjection_proof = Some(Box::new(r));
                    true
                }
                Err(_) => false,
            }
        }
        Tamper::Script { out, seed } => {
            let Some(i) = pick(&value_conf_outs, *out) else { return false };
            let mut p = Prng::from_u64(*seed);
            let mut s = tx.output[i].script_pubkey.to_bytes();
            let old = s.clone();
            match p.below(8) {
                // the empty script (what a fee output carries), an OP_RETURN script, another output's script, a truncation
                0 => s.clear(),
                1 => s = Script::new_op_return(&p.bytes(4)).to_bytes(),
                2 => {
                    let j = p.usize_below(tx.output.len());
                    s = tx.output[j].script_pubkey.to_bytes();
                }
                3 if !s.is_empty() => s.truncate(p.usize_below(s.len())),
                4 => s.push(p.u8()),
                _ if s.is_empty() => s.push(p.u8()),
                _ => {
                    let k = p.usize_below(s.len());
                    s[k] ^= 1 << p.below(8);
                }
            }
            if s == old {
                return false;
            }
            tx.output[i].script_pubkey = Script::from(s);
            true
        }
        Tamper::IssuanceAmount { input, keys, delta } => {
            let iss: Vec<usize> = (0..tx.input.len()).filter(|i| tx.input[*i].has_issuance()).collect();
            let Some(i) = pick(&iss, *input) else { return false };
            let slot = if *keys && !tx.input[i].asset_issuance.inflation_keys.is_null() { &mut tx.input[i].asset_issuance.inflation_keys } else { &mut tx.input[i].asset_issuance.amount };
            match *slot {
                Value::Explicit(v) => *slot = Value::Explicit(add_delta(v, *delta)),
                Value::Confidential(c) => {
                    let n = pl.comms[(*delta as usize) % pl.comms.len()];
                    if n == c {
                        return false;
                    }
                    *slot = Value::Confidential(n);
                }
                Value::Null => return false,
            }
            true
        }
        Tamper::PrevoutValue { input, delta, pool } => {
            if spent.is_empty() {
                return false;
            }
            let i = *input % spent.len();
            match spent[i].value {
                Value::Explicit(v) => spent[i].value = Value::Explicit(add_delta(v, *delta)),
                Value::Confidential(c) => {
                    let n = pl.comms[*pool % pl.comms.len()];
                    if n == c {
                        return false;
                    }
                    spent[i].value = Value::Confidential(n);
                }
                Value::Null => return false,
            }
            true
        }
        Tamper::PrevoutAsset { input, pool } => {
            if spent.is_empty() {
                return false;
            }
            let i = *input % spent.len();
            match spent[i].asset {
                Asset::Explicit(a) => {
                    let mut b = a.to_byte_array();
                    b[31] ^= 0x80;
                    spent[i].asset = Asset::Explicit(AssetId::from_byte_array(b));
                    true
                }
                Asset::Confidential(g) => {
                    // Changing only the generator of a confidential input leaves the value balance intact; it is
                    // detectable only through a surjection proof whose ring includes this input, which is
                    // guaranteed only when every ring covers the whole domain (<= 3 entries).
                    if domain_size > 3 {
                        return false;
                    }
                    let n = pl.gens[*pool % pl.gens.len()];
                    if n == g {
                        return false;
                    }
                    spent[i].asset = Asset::Confidential(n);
                    true
                }
                Asset::Null => false,
            }
        }
        Tamper::AssetNull { out } => {
            if tx.output.is_empty() {
                return false;
            }
            let i = *out % tx.output.len();
            // (a zero-value output on an unspendable script takes no part in the verification at all)
            if tx.output[i].value == Value::Explicit(0) {
                return false;
            }
            tx.output[i].asset = Asset::Null;
            true
        }
        Tamper::ValueNull { out } => {
            if tx.output.is_empty() {
                return false;
            }
            let i = *out % tx.output.len();
            tx.output[i].value = Value::Null;
            true
        }
        Tamper::PrevoutLen { longer } => {
            if *longer {
                let extra = spent.last().cloned().unwrap_or_default();
                spent.push(extra);
                true
            } else {
                spent.pop().is_some()
            }
        }
    }
}

/// What the relay's base transaction looks like beyond what Transaction::blind produces: committed issuance
/// amounts / keys (blinder r on the input side) and two partially blinded outputs (explicit asset, committed
/// value) whose blinders s and (sum r) - s keep the transaction balanced.
pub fn post_blind(tx: &mut Transaction, w: &Workload, seed: u64) -> bool {
    let secp = secp();
    let Some((o1, o2, asset)) = w.gadget else { return false };
    let mut p = Prng::from_u64(seed ^ 0x9a06_e7);
    let mut comp = ValueBlindingFactor::zero();
    for (i, keys) in &w.conf_iss {
        let (aid, tid) = issuance_ids_ref_with(&tx.input[*i], !*keys);
        let r = gen::vbf(&mut p);
        let slot = if *keys { &mut tx.input[*i].asset_issuance.inflation_keys } else { &mut tx.input[*i].asset_issuance.amount };
        let Some(v) = slot.explicit() else { continue };
        let g = elements::secp256k1_zkp::Generator::new_unblinded(secp, (if *keys { tid } else { aid }).into_tag());
        *slot = Value::Confidential(elements::secp256k1_zkp::PedersenCommitment::new(secp, v, r.into_inner(), g));
        comp += r;
    }
    let s = gen::vbf(&mut p);
    let mut s2 = comp;
    s2 += -s;
    let msg = elements::RangeProofMessage::new(asset, AssetBlindingFactor::zero());
    for (o, vbf) in [(o1, s), (o2, s2)] {
        let out = &mut tx.output[o];
        let sk = gen::secret_key(&mut p);
        match out.value.blind_with_shared_secret(secp, vbf, sk, &out.script_pubkey, &msg) {
            Ok((vc, rp)) => {
                out.value = vc;
                out.witness.rangeproof = Some(Box::new(rp));
            }
            Err(_) => return false,
        }
    }
    true
}

/// Exact-value / exact-asset proofs (the PSET explicit fields): a proof made for an output's commitments
/// verifies for the true value and asset and for nothing else.
fn explicit_proofs(ctx: &mut Ctx, case: &Case, w: &Workload, rx: &Transaction, blinds: &BTreeMap<elements::CtLocation, (AssetBlindingFactor, ValueBlindingFactor, SecretKey)>) {
    use elements::secp256k1_zkp::{RangeProof, SurjectionProof};
    use elements::{BlindAssetProofs, BlindValueProofs};
    let secp = secp();
    let mut rng = SimRng::new(&RngPlan { seed: case.rng.seed ^ 0xe1, personality: Personality::Uniform });
    let mut p = Prng::from_u64(case.spec.seed ^ 0xe2);
    let confs: Vec<(usize, &(AssetBlindingFactor, ValueBlindingFactor, SecretKey))> = blinds.iter().map(|(l, b)| (l.input_index, b)).collect();
    for (k, (i, (abf, vbf, _))) in confs.iter().enumerate() {
        let (asset, value) = w.originals[*i];
        let (Some(comm), Some(gen_)) = (rx.output[*i].value.commitment(), rx.output[*i].asset.commitment()) else { continue };
        let Some(Ok(vp)) = ctx.call("blind_value_proof", 0, || RangeProof::blind_value_proof(&mut rng, secp, value, comm, gen_, *vbf)) else {
            ctx.violate("C05.explicit_proof.value", "create", format!("cannot create the explicit-value proof for output {}", i));
            continue;
        };
        let Some(Ok(ap)) = ctx.call("blind_asset_proof", 0, || SurjectionProof::blind_asset_proof(&mut rng, secp, asset, *abf)) else {
            ctx.violate("C05.explicit_proof.asset", "create", format!("cannot create the explicit-asset proof for output {}", i));
            continue;
        };
        ctx.nontrivial = true;
        ctx.fault("tamper.explicit_proof", 1);
        let ok = ctx.call("blind_value_proof_verify", 0, || vp.blind_value_proof_verify(secp, value, gen_, comm)).unwrap_or(false);
        ctx.check(ok, "C05.explicit_proof.value", "true-rejected", || format!("output {}: a fresh explicit-value proof does not verify", i));
        let other_value = if p.coin() { value.wrapping_add(1) } else { value.wrapping_sub(1).max(1) };
        if other_value != value {
            let bad = ctx.call("blind_value_proof_verify", 0, || vp.blind_value_proof_verify(secp, other_value, gen_, comm)).unwrap_or(false);
            ctx.check(!bad, "C05.explicit_proof.value", "other-value-accepted", || format!("output {}: explicit-value proof for {} verifies for {}", i, value, other_value));
        }
        let other_gen = *p.pick(&pool().gens);
        let bad = ctx.call("blind_value_proof_verify", 0, || vp.blind_value_proof_verify(secp, value, other_gen, comm)).unwrap_or(false);
        ctx.check(!bad, "C05.explicit_proof.value", "other-generator-accepted", || format!("output {}: explicit-value proof verifies under a foreign asset generator", i));
        if let Some((j, _)) = confs.get((k + 1) % confs.len()) {
            if j != i {
                if let Some(other_comm) = rx.output[*j].value.commitment() {
                    let bad = ctx.call("blind_value_proof_verify", 0, || vp.blind_value_proof_verify(secp, value, gen_, other_comm)).unwrap_or(false);
                    ctx.check(!bad, "C05.explicit_proof.value", "other-commitment-accepted", || format!("output {}: explicit-value proof verifies for output {}'s commitment", i, j));
                }
            }
        }
        let ok = ctx.call("blind_asset_proof_verify", 0, || ap.blind_asset_proof_verify(secp, asset, gen_)).unwrap_or(false);
        ctx.check(ok, "C05.explicit_proof.asset", "true-rejected", || format!("output {}: a fresh explicit-asset proof does not verify", i));
        let mut ob = asset.to_byte_array();
        ob[p.usize_below(32)] ^= 1 << p.below(8);
        let bad = ctx.call("blind_asset_proof_verify", 0, || ap.blind_asset_proof_verify(secp, AssetId::from_byte_array(ob), gen_)).unwrap_or(false);
        ctx.check(!bad, "C05.explicit_proof.asset", "other-asset-accepted", || format!("output {}: explicit-asset proof verifies for another asset id", i));
        let bad = ctx.call("blind_asset_proof_verify", 0, || ap.blind_asset_proof_verify(secp, asset, other_gen)).unwrap_or(false);
        ctx.check(!bad, "C05.explicit_proof.asset", "other-generator-accepted", || format!("output {}: explicit-asset proof verifies for a foreign asset commitment", i));
    }
}

#[derive(Clone, Debug, Serialize, Deserialize, PartialEq, Eq)]
pub struct ExplicitSpec {
    pub seed: u64,
    pub n_in: usize,
    pub n_out: usize,
    pub n_assets: usize,
    pub issuance: bool,
    /// 0 balanced; 1 one output amount off; 2 one output on another asset; 3 one input amount off
    pub imbalance: u8,
    pub zero_unspendable: bool,
    pub zero_spendable: bool,
}

#[derive(Clone, Debug, Serialize, Deserialize)]
pub struct Case {
    pub spec: CtSpec,
    pub rng: RngPlan,
    pub hop_write: IoPlan,
    pub hop_read: IoPlan,
    pub tampers: Vec<Tamper>,
    pub explicit: Option<ExplicitSpec>,
    /// hostile RNG scenario: a clean surjection failure is an admissible outcome when the domain exceeds 3
    pub hostile: bool,
    /// before tampering, the relay's base transaction also carries a zero-value OP_RETURN output whose asset
    /// is confidential (with a surjection proof): it takes no part in the balance but its proof must hold
    #[serde(default)]
    pub zero_conf_asset_output: bool,
    /// Some(n): the verifying transaction is the n-th real (transaction, spent outputs) vector of the repository
    /// (tests, examples, extracted blinded PSETs) instead of one blinded in this run
    #[serde(default)]
    pub corpus_vec: Option<u32>,
    /// Some: the wallet assembles the blinded transaction itself from the public output constructors
    /// (new_not_last_confidential / to_non_last_confidential / with_txout_secrets, then new_last_confidential /
    /// with_secrets_last) instead of calling Transaction::blind
    #[serde(default)]
    pub manual: Option<ManualPlan>,
}

#[derive(Clone, Debug, Serialize, Deserialize, PartialEq, Eq)]
pub struct ManualPlan {
    pub seed: u64,
    /// which marked output is blinded last (index among the marked ones, modulo)
    pub last_pick: u32,
    /// bit k set: surjection domain entry k is handed over as a bare commitment (SurjectionInput::Unknown) unless
    /// it is the entry the output's asset has to come from
    pub unknown_mask: u32,
    /// two bits per non-last marked output: which constructor
    pub api_mask: u64,
    /// false: new_last_confidential, true: with_secrets_last with caller-chosen asset blinder and ephemeral key
    pub last_with_secrets: bool,
}

pub struct CtWorld;

fn hop(ctx: &mut Ctx, tx: &Transaction, w: &IoPlan, r: &IoPlan) -> Option<Transaction> {
    let mut sw = SimWriter::new(w);
    let res = ctx.call("consensus_encode<Transaction>", 0, || tx.consensus_encode(&mut sw));
    ctx.io_counts("write", &sw.counts);
    match res {
        Some(Ok(_)) => {}
        _ => return None,
    }
    let mut sr = SimReader::new(&sw.accepted, r);
    let res = ctx.call("consensus_decode<Transaction>", sw.accepted.len(), || Transaction::consensus_decode(&mut sr));
    ctx.io_counts("read", &sr.counts);
    match res {
        Some(Ok(t)) => Some(t),
        _ => None,
    }
}

fn explicit_case(ctx: &mut Ctx, e: &ExplicitSpec) {
    let secp = secp();
    let mut p = Prng::from_u64(e.seed);
    let assets: Vec<AssetId> = (0..e.n_assets.max(1)).map(|_| gen::asset_id(&mut p)).collect();
    let mut totals: BTreeMap<AssetId, u128> = BTreeMap::new();
    let mut input = Vec::new();
    let mut spent = Vec::new();
    for k in 0..e.n_in.max(1) {
        let a = if k < assets.len() { assets[k] } else { *p.pick(&assets) };
        let v = amount(&mut p, false);
        *totals.entry(a).or_insert(0) += v as u128;
        spent.push(TxOut { asset: Asset::Explicit(a), value: Value::Explicit(v), nonce: Nonce::Null, script_pubkey: addressable_script(&mut p), witness: TxOutWitness::default() });
        let mut txin = TxIn { previous_output: OutPoint::new(gen::txid(&mut p), p.below(4) as u32), ..Default::default() };
        if e.issuance && p.coin() {
            let shape = p.below(3);
            let amt = amount(&mut p, false);
            txin.asset_issuance = AssetIssuance {
                asset_blinding_nonce: if p.chance(1, 4) { *p.pick(&pool().tweaks) } else { gen::ZERO_TWEAK },
                asset_entropy: p.arr32(),
                amount: if shape == 2 { Value::Null } else { Value::Explicit(amt) },
                inflation_keys: if shape >= 1 { Value::Explicit(3) } else { Value::Null },
            };
            let (aid, tid) = issuance_ids_ref(&txin);
            if shape != 2 {
                *totals.entry(aid).or_insert(0) += amt as u128;
            }
            if shape >= 1 {
                *totals.entry(tid).or_insert(0) += 3;
            }
        }
        input.push(txin);
    }
    let mut output = Vec::new();
    let mut extra = e.n_out;
    for (a, t) in totals.iter() {
        let t = *t as u64;
        let mut parts = 1;
        while extra > 0 && (parts as u64) < t && p.coin() {
            parts += 1;
            extra -= 1;
        }
        for (k, v) in split(&mut p, t, parts).into_iter().enumerate() {
            if k == 0 && p.coin() {
                output.push(TxOut::new_fee(v, *a));
            } else {
                output.push(TxOut { asset: Asset::Explicit(*a), value: Value::Explicit(v), nonce: Nonce::Null, script_pubkey: addressable_script(&mut p), witness: TxOutWitness::default() });
            }
        }
    }
    // scripts around the maximal script size: 10 000 bytes is spendable, 10 001 is not
    let boundary = |p: &mut Prng, len: usize| {
        let mut b = p.bytes(len);
        if !b.is_empty() && b[0] == 0x6a {
            b[0] = 0x51;
        }
        Script::from(b)
    };
    if e.zero_unspendable {
        let spk = match p.below(4) {
            0 => Script::new_op_return(&p.bytes(5)),
            1 => Script::new(),
            2 => boundary(&mut p, 10_001),
            _ => {
                let extra = p.usize_below(50);
                boundary(&mut p, 10_001 + extra)
            }
        };
        output.push(TxOut { asset: Asset::Explicit(*p.pick(&assets)), value: Value::Explicit(0), nonce: Nonce::Null, script_pubkey: spk, witness: TxOutWitness::default() });
    }
    if e.zero_spendable {
        let spk = match p.below(4) {
            0 => boundary(&mut p, 10_000),
            1 => boundary(&mut p, 9_999),
            _ => addressable_script(&mut p),
        };
        output.push(TxOut { asset: Asset::Explicit(*p.pick(&assets)), value: Value::Explicit(0), nonce: Nonce::Null, script_pubkey: spk, witness: TxOutWitness::default() });
    }
    p.shuffle(&mut output);
    match e.imbalance {
        1 => {
            if let Some(o) = output.iter_mut().find(|o| o.value.explicit().unwrap_or(0) > 0) {
                let v = o.value.explicit().unwrap();
                o.value = Value::Explicit(add_delta(v, if p.coin() { 1 } else { -1 }));
            }
        }
        2 => {
            if let Some(o) = output.iter_mut().find(|o| o.value.explicit().unwrap_or(0) > 0) {
                o.asset = Asset::Explicit(gen::asset_id(&mut p));
            }
        }
        3 => {
            let v = spent[0].value.explicit().unwrap();
            spent[0].value = Value::Explicit(add_delta(v, 1));
        }
        _ => {}
    }
    let tx = Transaction { version: 2, lock_time: LockTime::ZERO, input, output };
    // ---- 15-line reference: per-asset u128 sums
    let mut ins: BTreeMap<AssetId, u128> = BTreeMap::new();
    let mut outs: BTreeMap<AssetId, u128> = BTreeMap::new();
    for (i, s) in spent.iter().enumerate() {
        *ins.entry(s.asset.explicit().unwrap()).or_insert(0) += s.value.explicit().unwrap() as u128;
        if !(tx.input[i].asset_issuance.amount.is_null() && tx.input[i].asset_issuance.inflation_keys.is_null()) {
            let (aid, tid) = issuance_ids_ref(&tx.input[i]);
            if let Some(v) = tx.input[i].asset_issuance.amount.explicit() {
                *ins.entry(aid).or_insert(0) += v as u128;
            }
            if let Some(v) = tx.input[i].asset_issuance.inflation_keys.explicit() {
                *ins.entry(tid).or_insert(0) += v as u128;
            }
        }
    }
    let mut zero_ok = true;
    for o in &tx.output {
        let v = o.value.explicit().unwrap();
        if v == 0 {
            if !unspendable_ref(&o.script_pubkey) {
                zero_ok = false;
            }
            continue;
        }
        *outs.entry(o.asset.explicit().unwrap()).or_insert(0) += v as u128;
    }
    ins.retain(|_, v| *v != 0);
    let expect_ok = zero_ok && ins == outs;
    ctx.sig_n("explicit.imbalance", e.imbalance as u64);
    ctx.sig_n("explicit.zero", e.zero_unspendable as u64 + 2 * e.zero_spendable as u64);
    ctx.nontrivial = true;
    let r = ctx.call("verify_tx_amt_proofs", 0, || tx.verify_tx_amt_proofs(secp, &spent));
    if let Some(r) = r {
        ctx.ev("explicit.verify", r.is_ok() as u64);
        let key = if expect_ok { if e.zero_unspendable { "balanced-with-zero-unspendable-rejected" } else { "balanced-rejected" } } else { "unbalanced-accepted" };
        ctx.check(r.is_ok() == expect_ok, "C05.explicit.iff", key, || format!("all-explicit transaction: reference model says {} (zero-value rule ok: {}), verify_tx_amt_proofs returned {:?}; spec {:?}", if expect_ok { "balanced" } else { "unbalanced" }, zero_ok, r, e));
    }
}

/// The surjection domain as commitments, in the order of `w.secrets`: each input's spent asset, then its issued
/// asset and its reissuance token when present.
fn domain_commitments(w: &Workload) -> Vec<Asset> {
    let mut v = Vec::new();
    for (i, txin) in w.tx.input.iter().enumerate() {
        v.push(w.spent[i].asset);
        if txin.has_issuance() {
            let (aid, tid) = issuance_ids_ref(txin);
            if !txin.asset_issuance.amount.is_null() {
                v.push(Asset::Explicit(aid));
            }
            if !txin.asset_issuance.inflation_keys.is_null() {
                v.push(Asset::Explicit(tid));
            }
        }
    }
    v
}

/// A wallet that does what Transaction::blind does, by hand, through the public constructors; any marked output may
/// be the one blinded last; domain entries the wallet "does not know" are passed as bare commitments.
fn manual_blind(
    ctx: &mut Ctx,
    m: &ManualPlan,
    w: &Workload,
    tx: &mut Transaction,
    rng: &mut SimRng,
) -> Option<Result<BTreeMap<elements::CtLocation, (AssetBlindingFactor, ValueBlindingFactor, SecretKey)>, elements::BlindError>> {
    use elements::{Address, AddressParams, CtLocation, CtLocationType, SurjectionInput};
    let secp = secp();
    let mut p = Prng::from_u64(m.seed);
    let marked: Vec<usize> = (0..tx.output.len()).filter(|i| w.receivers[*i].is_some()).collect();
    if marked.is_empty() {
        return Some(Err(elements::BlindError::TooFewBlindingOutputs));
    }
    let last = marked[m.last_pick as usize % marked.len()];
    let comms = domain_commitments(w);
    if comms.len() != w.secrets.len() {
        ctx.violate("HARNESS.manual", "domain", format!("domain model has {} entries, workload {}", comms.len(), w.secrets.len()));
        return None;
    }
    let mut blinds = BTreeMap::new();
    let mut out_secrets: Vec<TxOutSecrets> = Vec::new();
    let mut k_api = 0;
    // every other output first (explicit ones count with zero blinders), the chosen one last
    for i in 0..tx.output.len() {
        if i == last {
            continue;
        }
        let (asset, value) = w.originals[i];
        if w.receivers[i].is_none() {
            out_secrets.push(TxOutSecrets::new(asset, AssetBlindingFactor::zero(), value, ValueBlindingFactor::zero()));
            continue;
        }
        let pk = tx.output[i].nonce.commitment().expect("marked output carries the receiver key");
        // the entry this output's asset comes from must be known; the others may be bare commitments
        let source = w.secrets.iter().position(|s| s.asset == asset);
        let dom: Vec<SurjectionInput> = (0..w.secrets.len())
            .map(|k| if m.unknown_mask & (1 << (k % 32)) != 0 && Some(k) != source { SurjectionInput::Unknown(comms[k]) } else { SurjectionInput::from_txout_secrets(w.secrets[k]) })
            .collect();
        ctx.stats.add("manual.unknown_entries", dom.iter().filter(|d| matches!(d, SurjectionInput::Unknown(_))).count() as u64);
        let mut api = (m.api_mask >> (2 * (k_api % 32))) & 3;
        k_api += 1;
        let spk = tx.output[i].script_pubkey.clone();
        // new_not_last_confidential takes an Address by design: a script without an address form goes another way
        if (api == 0 || api == 3) && Address::from_script(&spk, Some(pk), &AddressParams::ELEMENTS).is_none() {
            api = 1 + (m.seed & 1);
        }
        let res = match api {
            0 | 3 => {
                let params = match p.below(3) {
                    0 => &AddressParams::LIQUID,
                    1 => &AddressParams::ELEMENTS,
                    _ => &AddressParams::LIQUID_TESTNET,
                };
                let Some(addr) = Address::from_script(&spk, Some(pk), params) else {
                    ctx.violate("HARNESS.manual", "address", "workload script is not addressable".into());
                    return None;
                };
                ctx.sig("api.new_not_last");
                ctx.call("TxOut::new_not_last_confidential", 0, || TxOut::new_not_last_confidential(rng, secp, value, &addr, asset, &dom))?
            }
            1 => {
                ctx.sig("api.to_non_last");
                let o = tx.output[i].clone();
                ctx.call("TxOut::to_non_last_confidential", 0, || o.to_non_last_confidential(rng, secp, pk, &dom))?
            }
            _ => {
                ctx.sig("api.with_txout_secrets");
                let (abf, vbf, esk) = (gen::abf(&mut p), gen::vbf(&mut p), gen::secret_key(&mut p));
                ctx.call("TxOut::with_txout_secrets", 0, || TxOut::with_txout_secrets(rng, secp, spk, pk, esk, TxOutSecrets::new(asset, abf, value, vbf), &dom))?.map(|o| (o, abf, vbf, esk))
            }
        };
        match res {
            Ok((o, abf, vbf, esk)) => {
                out_secrets.push(TxOutSecrets::new(asset, abf, value, vbf));
                blinds.insert(CtLocation { input_index: i, ty: CtLocationType::Input }, (abf, vbf, esk));
                tx.output[i] = o;
            }
            Err(e) => return Some(Err(elements::BlindError::ConfidentialTxOutError(e))),
        }
    }
    let (asset, value) = w.originals[last];
    let pk = tx.output[last].nonce.commitment().expect("marked output carries the receiver key");
    let spk = tx.output[last].script_pubkey.clone();
    let refs: Vec<&TxOutSecrets> = out_secrets.iter().collect();
    let res = if m.last_with_secrets {
        ctx.sig("api.with_secrets_last");
        let (abf, esk) = (gen::abf(&mut p), gen::secret_key(&mut p));
        ctx.call("TxOut::with_secrets_last", 0, || TxOut::with_secrets_last(rng, secp, value, spk, pk, asset, esk, abf, &w.secrets, &refs))?.map(|(o, vbf)| (o, abf, vbf, esk))
    } else {
        ctx.sig("api.new_last");
        ctx.call("TxOut::new_last_confidential", 0, || TxOut::new_last_confidential(rng, secp, value, asset, spk, pk, &w.secrets, &refs))?
    };
    match res {
        Ok((o, abf, vbf, esk)) => {
            blinds.insert(CtLocation { input_index: last, ty: CtLocationType::Input }, (abf, vbf, esk));
            tx.output[last] = o;
        }
        Err(e) => return Some(Err(elements::BlindError::ConfidentialTxOutError(e))),
    }
    Some(Ok(blinds))
}

/// The blinded transaction travels serialized to the verifier and to each receiver; C04 postconditions.
/// Returns the transaction as received and whether it verified.
fn verify_and_unblind(ctx: &mut Ctx, case: &Case, w: &Workload, tx: &Transaction, blinds: &BTreeMap<elements::CtLocation, (AssetBlindingFactor, ValueBlindingFactor, SecretKey)>) -> Option<(Transaction, bool)> {
    let secp = secp();
    let tx = tx.clone();
    // ---- the transaction travels serialized to verifier and receivers
    let Some(rx) = hop(ctx, &tx, &case.hop_write, &case.hop_read) else {
        ctx.violate("C04.verify", "hop", "blinded transaction did not survive a serialize/deserialize hop".into());
        return None;
    };
    ctx.check(rx == tx, "C04.verify", "hop-equal", || "blinded transaction changed across a serialize/deserialize hop".into());
    let v = ctx.call("verify_tx_amt_proofs", 0, || rx.verify_tx_amt_proofs(secp, &w.spent));
    let verified = matches!(v, Some(Ok(())));
    if let Some(v) = &v {
        ctx.check(v.is_ok(), "C04.verify", "rejected", || format!("blinded transaction does not verify: {:?}; spec {:?}", v, case.spec));
    }
    // ---- receivers
    let marked: Vec<usize> = (0..rx.output.len()).filter(|i| w.receivers[*i].is_some()).collect();
    let reported: Vec<usize> = blinds.keys().map(|l| l.input_index).collect();
    ctx.check(reported == marked, "C04.unblind.secrets", "locations", || format!("blinder reported factors for outputs {:?}, marked outputs are {:?}", reported, marked));
    for (i, out) in rx.output.iter().enumerate() {
        let (asset, value) = w.originals[i];
        match &w.receivers[i] {
            None => {
                ctx.check(out.asset == Asset::Explicit(asset) && out.value == Value::Explicit(value), "C04.commitments", "unmarked-changed", || format!("unmarked output {} changed by blinding", i));
            }
            Some(sk) => {
                let conf = out.asset.is_confidential() && out.value.is_confidential() && out.nonce.is_confidential();
                ctx.check(conf, "C04.commitments", "not-confidential", || format!("marked output {} is not fully confidential after blinding", i));
                let Some(u) = ctx.call("TxOut::unblind", 0, || out.unblind(secp, *sk)) else { continue };
                match u {
                    Ok(s) => {
                        ctx.check(s.asset == asset && s.value == value, "C04.unblind.secrets", "asset-value", || format!("output {} unblinds to ({}, {}), original ({}, {})", i, s.asset, s.value, asset, value));
                        if let Some((abf, vbf, esk)) = blinds.iter().find(|(l, _)| l.input_index == i).map(|(_, v)| v) {
                            ctx.check(s.asset_bf == *abf && s.value_bf == *vbf, "C04.unblind.secrets", "factors", || format!("output {}: unblinded factors differ from the ones the blinder reported", i));
                            let a2 = Asset::new_confidential(secp, asset, *abf);
                            let v2 = Value::new_confidential_from_assetid(secp, value, asset, *vbf, *abf);
                            ctx.check(a2 == out.asset && v2 == out.value, "C04.commitments", "reproduce", || format!("output {}: reported factors do not reproduce the asset/value commitments", i));
                            let n2 = Nonce::Confidential(PublicKey::from_secret_key(secp, esk));
                            ctx.check(n2 == out.nonce, "C04.commitments", "nonce", || format!("output {}: nonce is not the public key of the reported ephemeral secret", i));
                        }
                    }
                    Err(e) => ctx.violate("C04.unblind.secrets", "unblind-err", format!("output {} cannot be unblinded by its receiver: {:?}", i, e)),
                }
            }
        }
    }
    Some((rx, verified))
}

/// One tamper per delivery on a real verifying transaction of the repository's vectors.
fn corpus_tamper(ctx: &mut Ctx, case: &Case, n: u32) {
    let secp = secp();
    let c = crate::corpus::get();
    if c.verifying.is_empty() {
        return;
    }
    let k = n as usize % c.verifying.len();
    let (txb, spentb) = &c.verifying[k];
    ctx.sig_n("corpus_vec", k as u64);
    ctx.ev("ct.corpus", k as u64);
    let origin = c.index.verifying[k].origin.clone();
    let Some(Ok(rx)) = ctx.call("deserialize<Transaction>", txb.len(), || elements::encode::deserialize::<Transaction>(txb)) else {
        ctx.violate("C05.base", "corpus-decode", format!("repository vector {} no longer decodes", origin));
        return;
    };
    let spent: Vec<TxOut> = spentb.iter().filter_map(|b| elements::encode::deserialize::<TxOut>(b).ok()).collect();
    if spent.len() != spentb.len() {
        ctx.violate("C05.base", "corpus-decode", format!("spent outputs of repository vector {} no longer decode", origin));
        return;
    }
    let base = ctx.call("verify_tx_amt_proofs", 0, || rx.verify_tx_amt_proofs(secp, &spent));
    let Some(base) = base else { return };
    if !ctx.check(base.is_ok(), "C05.base", "corpus", || format!("repository vector {} (verifies on the unchanged tree) is rejected: {:?}", origin, base)) {
        return;
    }
    ctx.nontrivial = true;
    let domain_size = rx.input.iter().map(|i| 1 + (!i.asset_issuance.amount.is_null()) as usize + (!i.asset_issuance.inflation_keys.is_null()) as usize).sum();
    for t in &case.tampers {
        let mut ttx = rx.clone();
        let mut tspent = spent.clone();
        if !apply_tamper(t, &mut ttx, &mut tspent, domain_size) {
            ctx.probe("tamper_not_applicable");
            continue;
        }
        if ttx == rx && tspent == spent {
            continue;
        }
        let class = t.class();
        ctx.fault(&format!("tamper.{}", class), 1);
        let Some(arrived) = hop(ctx, &ttx, &IoPlan::perfect(), &IoPlan::perfect()) else {
            ctx.probe("tamper_rejected_at_decode");
            continue;
        };
        let Some(r) = ctx.call("verify_tx_amt_proofs", 0, || arrived.verify_tx_amt_proofs(secp, &tspent)) else { continue };
        ctx.ev("tamper.verify", r.is_ok() as u64);
        if class == "prevout.len" {
            ctx.check(matches!(r, Err(elements::VerificationError::UtxoInputLenMismatch)), "C05.prevout.len", "wrong-error", || format!("spent-output list of wrong length: verify returned {:?}", r));
        } else {
            ctx.check(r.is_err(), &format!("C05.tamper.{}", class), &format!("{:?}", t).split(' ').next().unwrap_or("?").to_string(), || format!("tampered repository vector {} verifies: {:?}", origin, t));
        }
    }
    ctx.ev("ct.end", ctx.steps);
}

impl World for CtWorld {
    type Case = Case;
    fn name(&self) -> &'static str {
        "ct"
    }
    fn generate(&self, p: &mut Prng, scenario: &str, _run: u64) -> Case {
        let spec = CtSpec::draw(p);
        let mut case = Case {
            spec,
            rng: RngPlan { seed: p.u64(), personality: Personality::Uniform },
            hop_write: IoPlan::draw_benign(p),
            hop_read: IoPlan::draw_benign(p),
            tampers: vec![],
            explicit: None,
            hostile: false,
            zero_conf_asset_output: false,
            corpus_vec: None,
            manual: None,
        };
        match scenario {
            "blind" => {}
            "manual" => {
                case.manual = Some(ManualPlan { seed: p.u64(), last_pick: p.u32(), unknown_mask: if p.coin() { 0 } else { p.u32() }, api_mask: p.u64(), last_with_secrets: p.coin() });
            }
            "tamper-corpus" => {
                let k = p.urange(6, 14);
                case.tampers = (0..k).map(|_| Tamper::draw(p)).collect();
                case.corpus_vec = Some(p.u32());
            }
            "tamper" => {
                let k = p.urange(3, 8);
                case.tampers = (0..k).map(|_| Tamper::draw(p)).collect();
                case.zero_conf_asset_output = p.chance(1, 3);
                case.spec.partial_gadget = p.chance(1, 2);
                case.spec.conf_issuance = case.spec.partial_gadget && p.coin();
                if case.spec.conf_issuance {
                    case.spec.issuance = true;
                }
            }
            "hostile-rng" => {
                case.hostile = true;
                case.rng.personality = match p.below(3) {
                    0 => Personality::LowEntropy { block: *p.pick(&[1usize, 4, 32, 33]) },
                    1 => Personality::Sticky { run: *p.pick(&[2usize, 16, 64]) },
                    _ => Personality::LowEntropy { block: 32 },
                };
            }
            "explicit" => {
                case.explicit = Some(ExplicitSpec {
                    seed: p.u64(),
                    n_in: p.urange(1, 4),
                    n_out: p.urange(0, 4),
                    n_assets: p.urange(1, 3),
                    issuance: p.chance(1, 3),
                    imbalance: if p.coin() { 0 } else { p.urange(1, 3) as u8 },
                    zero_unspendable: p.chance(1, 3),
                    zero_spendable: p.chance(1, 6),
                });
            }
            _ => panic!("unknown scenario {}", scenario),
        }
        case
    }

    fn execute(&self, case: &Case, ctx: &mut Ctx) {
        if let Some(e) = &case.explicit {
            explicit_case(ctx, e);
            return;
        }
        let secp = secp();
        if let Some(n) = case.corpus_vec {
            corpus_tamper(ctx, case, n);
            return;
        }
        let w = build(&case.spec);
        ctx.sig_n("n_in", w.tx.input.len() as u64);
        ctx.sig_n("n_out", w.tx.output.len() as u64);
        ctx.sig_n("marked", w.receivers.iter().filter(|r| r.is_some()).count() as u64);
        ctx.sig_n("domain", w.domain_size as u64);
        ctx.ev("ct.start", case.spec.seed);
        let mut tx = w.tx.clone();
        let mut rng = SimRng::new(&case.rng);
        if case.rng.personality != Personality::Uniform {
            ctx.fault(&format!("rng.{}", match case.rng.personality { Personality::LowEntropy { .. } => "low_entropy", Personality::Sticky { .. } => "sticky", _ => "uniform" }), 1);
        }
        // ---- the wallet blinds
        let r = match &case.manual {
            Some(m) => {
                let r = manual_blind(ctx, m, &w, &mut tx, &mut rng);
                ctx.sig("manual");
                ctx.nontrivial = true;
                r
            }
            None => {
                // with no issuance anywhere the blind_issuances flag has nothing to act on: either value must do
                let flag = !w.tx.input.iter().any(|i| i.has_issuance()) && case.spec.seed & 1 == 1;
                ctx.sig_n("blind_issuances_flag", flag as u64);
                ctx.call("Transaction::blind", 0, || tx.blind(&mut rng, secp, &w.secrets, flag))
            }
        };
        ctx.stats.add("rng.draws", rng.draws);
        ctx.stats.add("rng.bytes", rng.bytes_served);
        let blinds = match r {
            None => {
                ctx.violate("C04.blind.ok", "panic", format!("blind panicked on an in-domain workload {:?}", case.spec));
                return;
            }
            Some(Err(e)) => {
                let es = format!("{:?}", e);
                if case.hostile && w.domain_size > 3 && es.contains("CannotProveSurjection") {
                    ctx.probe("hostile_rng_surjection_failure");
                    ctx.ev("blind.err.surjection", 0);
                    return;
                }
                ctx.violate("C04.blind.ok", &es.split('(').next().unwrap_or("err").to_string(), format!("blind failed on an in-domain workload: {} ; spec {:?}", es, case.spec));
                return;
            }
            Some(Ok(b)) => b,
        };
        ctx.ev("blind.ok", blinds.len() as u64);
        let Some((rx, verified)) = verify_and_unblind(ctx, case, &w, &tx, &blinds) else { return };
        // ---- the relay tampers (one fault per delivery)
        if !verified {
            return;
        }
        if !case.tampers.is_empty() {
            explicit_proofs(ctx, case, &w, &rx, &blinds);
        }
        let mut rx = rx;
        if w.gadget.is_some() {
            if post_blind(&mut rx, &w, case.spec.seed) {
                ctx.sig("partial_gadget");
                ctx.sig_n("conf_iss", w.conf_iss.len() as u64);
                if !w.conf_iss.is_empty() {
                    ctx.probe("base_with_committed_issuance");
                }
                let base = ctx.call("verify_tx_amt_proofs", 0, || rx.verify_tx_amt_proofs(secp, &w.spent));
                if let Some(base) = base {
                    if !ctx.check(base.is_ok(), "C05.base", "partial-gadget", || format!("a verifying transaction whose two explicit-asset outputs were committed with blinders r and -r (and issuance amounts committed with compensation) does not verify: {:?}; spec {:?}", base, case.spec)) {
                        return;
                    }
                }
            }
        }
        if case.zero_conf_asset_output {
            let mut q = Prng::from_u64(case.spec.seed ^ 0x2e70);
            let asset = w.secrets[q.usize_below(w.secrets.len())].asset;
            let abf = gen::abf(&mut q);
            let mut rng2 = SimRng::new(&RngPlan { seed: case.rng.seed ^ 0x51, personality: Personality::Uniform });
            if let Some(Ok((asset_comm, proof))) = ctx.call("Asset::blind", 0, || Asset::Explicit(asset).blind(&mut rng2, secp, abf, &w.secrets)) {
                rx.output.push(TxOut { asset: asset_comm, value: Value::Explicit(0), nonce: Nonce::Null, script_pubkey: Script::new_op_return(&q.bytes(6)), witness: TxOutWitness { surjection_proof: Some(Box::new(proof)), rangeproof: None } });
                ctx.sig("zero_conf_asset_output");
                let base = ctx.call("verify_tx_amt_proofs", 0, || rx.verify_tx_amt_proofs(secp, &w.spent));
                if let Some(base) = base {
                    if !ctx.check(base.is_ok(), "C05.base", "zero-value-conf-asset", || format!("a verifying transaction plus a zero-value OP_RETURN output with a valid confidential asset does not verify: {:?}", base)) {
                        return;
                    }
                }
            }
        }
        for t in &case.tampers {
            let mut ttx = rx.clone();
            let mut tspent = w.spent.clone();
            if !apply_tamper(t, &mut ttx, &mut tspent, w.domain_size) {
                ctx.probe("tamper_not_applicable");
                continue;
            }
            if ttx == rx && tspent == w.spent {
                continue;
            }
            let class = t.class();
            ctx.fault(&format!("tamper.{}", class), 1);
            // the verifier decodes what arrives: a decode failure counts as rejection
            let arrived = hop(ctx, &ttx, &IoPlan::perfect(), &IoPlan::perfect());
            let Some(arrived) = arrived else {
                ctx.probe("tamper_rejected_at_decode");
                continue;
            };
            let Some(r) = ctx.call("verify_tx_amt_proofs", 0, || arrived.verify_tx_amt_proofs(secp, &tspent)) else { continue };
            ctx.ev("tamper.verify", r.is_ok() as u64);
            let inv = format!("C05.tamper.{}", class);
            if class == "prevout.len" {
                ctx.check(matches!(r, Err(elements::VerificationError::UtxoInputLenMismatch)), "C05.prevout.len", "wrong-error", || format!("spent-output list of wrong length: verify returned {:?}", r));
            } else {
                ctx.check(r.is_err(), &inv, &format!("{:?}", t).split(' ').next().unwrap_or("?").to_string(), || format!("tampered transaction verifies: {:?}; spec {:?}", t, case.spec));
                if let Err(e) = &r {
                    let es = format!("{:?}", e);
                    ctx.probe(&format!("verr.{}", es.split('(').next().unwrap_or("?")));
                }
            }
        }
        ctx.ev("ct.end", ctx.steps);
    }

    fn shrink(&self, case: &Case, _v: &Violation) -> Vec<Case> {
        let mut out = Vec::new();
        if case.tampers.len() > 1 {
            for t in &case.tampers {
                out.push(Case { tampers: vec![t.clone()], ..case.clone() });
            }
        }
        if !case.tampers.is_empty() {
            out.push(Case { tampers: vec![], ..case.clone() });
        }
        if !case.hop_write.is_perfect() {
            out.push(Case { hop_write: IoPlan::perfect(), ..case.clone() });
        }
        if !case.hop_read.is_perfect() {
            out.push(Case { hop_read: IoPlan::perfect(), ..case.clone() });
        }
        if case.rng.personality != Personality::Uniform {
            out.push(Case { rng: RngPlan { seed: case.rng.seed, personality: Personality::Uniform }, ..case.clone() });
        }
        for s in case.spec.shrinks() {
            out.push(Case { spec: s, ..case.clone() });
        }
        if let Some(e) = &case.explicit {
            let mut push = |x: ExplicitSpec| {
                if x != *e {
                    out.push(Case { explicit: Some(x), ..case.clone() })
                }
            };
            push(ExplicitSpec { n_in: 1, ..e.clone() });
            push(ExplicitSpec { n_out: 0, ..e.clone() });
            push(ExplicitSpec { n_assets: 1, ..e.clone() });
            push(ExplicitSpec { issuance: false, ..e.clone() });
            push(ExplicitSpec { zero_unspendable: false, ..e.clone() });
            push(ExplicitSpec { zero_spendable: false, ..e.clone() });
        }
        out
    }
}
