//! World `codec` (C01, C07 byte level, C10): encoder -> medium -> decoder for every consensus type,
//! with every encode/decode running against SimWriter/SimReader.

use crate::ctx::{guard, Ctx, Violation};
use crate::gen::{self, TxSpec};
use crate::medium::{self, Delivery, Edit, Seg, SegKind};
use crate::prng::Prng;
use crate::runner::World;
use crate::seams::{HardKind, IoPlan, SimReader, SimWriter};
use elements::encode::{self, Decodable, Encodable};
use serde::{Deserialize, Serialize};
use std::fmt::Debug;

#[derive(Clone, Copy, Debug, Serialize, Deserialize, PartialEq, Eq)]
pub enum Ty {
    Transaction,
    TxIn,
    TxOut,
    TxInWitness,
    TxOutWitness,
    Block,
    BlockHeader,
    Params,
    Asset,
    Value,
    Nonce,
    AssetIssuance,
    OutPoint,
    Script,
    LockTime,
    Sequence,
    Pset,
    PsetKey,
    PsetPair,
    PsetPropKey,
    PsetGlobal,
    PsetInput,
    PsetOutput,
}

pub const CONSENSUS_TYPES: [Ty; 16] = [
    Ty::Transaction,
    Ty::TxIn,
    Ty::TxOut,
    Ty::TxInWitness,
    Ty::TxOutWitness,
    Ty::Block,
    Ty::BlockHeader,
    Ty::Params,
    Ty::Asset,
    Ty::Value,
    Ty::Nonce,
    Ty::AssetIssuance,
    Ty::OutPoint,
    Ty::Script,
    Ty::LockTime,
    Ty::Sequence,
];
pub const PSET_TYPES: [Ty; 7] = [Ty::Pset, Ty::PsetKey, Ty::PsetPair, Ty::PsetPropKey, Ty::PsetGlobal, Ty::PsetInput, Ty::PsetOutput];

impl Ty {
    pub fn prop(self) -> &'static str {
        match self {
            Ty::Pset | Ty::PsetKey | Ty::PsetPair | Ty::PsetPropKey | Ty::PsetGlobal | Ty::PsetInput | Ty::PsetOutput => "C07",
            _ => "C01",
        }
    }
    /// decoders that read to the end of the stream: "trailing bytes" are part of the value
    pub fn reads_to_end(self) -> bool {
        matches!(self, Ty::PsetPropKey)
    }
}

#[derive(Clone, Debug, Serialize, Deserialize)]
pub struct ObjSpec {
    pub ty: Ty,
    pub seed: u64,
    pub tx: TxSpec,
    pub n_tx: usize,
    pub pset: Option<crate::psetgen::PsetSpec>,
    /// Some(n): the object is (or is taken out of) the n-th vector of the repository's own corpus of that kind
    #[serde(default)]
    pub corpus: Option<u32>,
    /// Some(k): the value comes out of one of the library's constructors or blinding functions (C01's "conversely"
    /// clause): Default impls, TxIn::blind_issuances, Transaction::blind, Pset::extract_tx, Pset::from_tx
    #[serde(default)]
    pub constructed: Option<u8>,
}

#[derive(Clone, Debug, Serialize, Deserialize)]
pub struct Case {
    pub obj: ObjSpec,
    /// random bytes instead of a generated object (C10 surface + the accept=>reencode implication)
    pub garbage: Option<Vec<u8>>,
    pub write_plan: IoPlan,
    pub write_fault: Option<(usize, HardKind)>,
    pub read_plan: IoPlan,
    pub read_fault: Option<(usize, HardKind)>,
    /// sweep every byte offset with a hard write fault and a hard read fault / EOF (short objects)
    pub sweep: bool,
    pub deliveries: Vec<Delivery>,
    /// read plan used for corrupted deliveries
    pub delivery_plan: IoPlan,
}

pub trait ObjVisitor {
    fn visit<T: Encodable + Decodable + PartialEq + Debug>(self, v: T, ty: Ty);
    /// a repository vector that the unchanged library decodes (and re-encodes byte for byte) is refused
    fn rejected(self, _ty: Ty, _what: String)
    where
        Self: Sized,
    {
    }
}

/// Objects that are, or are cut out of, a real vector of the repository. Returns the visitor back when the spec
/// does not ask for one (or the corpus has nothing of that kind).
fn visit_corpus<V: ObjVisitor>(spec: &ObjSpec, vis: V) -> Option<V> {
    use crate::corpus::{self, Kind};
    let Some(n) = spec.corpus else { return Some(vis) };
    let c = corpus::get();
    let mut p = Prng::from_u64(spec.seed);
    macro_rules! whole {
        ($t:ty, $k:expr) => {{
            let Some(i) = corpus::nth($k, n) else { return Some(vis) };
            match encode::deserialize::<$t>(c.bytes(i)) {
                Ok(v) => {
                    if $k != Kind::Pset {
                        let re = guard(|| encode::serialize(&v)).unwrap_or_default();
                        if re != c.bytes(i) {
                            vis.rejected(spec.ty, format!("repository vector {} (#{}, {} bytes) is accepted but re-encodes to different bytes ({} bytes)", c.source(i), i, c.bytes(i).len(), re.len()));
                            return None;
                        }
                    }
                    v
                }
                Err(e) => {
                    vis.rejected(spec.ty, format!("repository vector {} (#{}, {} bytes), decoded by the unchanged library, is refused: {:?}", c.source(i), i, c.bytes(i).len(), e));
                    return None;
                }
            }
        }};
    }
    match spec.ty {
        Ty::Transaction => {
            let v = whole!(elements::Transaction, Kind::Tx);
            vis.visit(v, spec.ty)
        }
        Ty::Block => {
            let v = whole!(elements::Block, Kind::Block);
            vis.visit(v, spec.ty)
        }
        Ty::Pset => {
            let v = whole!(elements::pset::PartiallySignedTransaction, Kind::Pset);
            vis.visit(v, spec.ty)
        }
        Ty::BlockHeader | Ty::Params => {
            let b = whole!(elements::Block, Kind::Block);
            if spec.ty == Ty::BlockHeader {
                vis.visit(b.header, spec.ty)
            } else {
                match b.header.ext {
                    elements::BlockExtData::Dynafed { current, proposed, .. } => vis.visit(if p.coin() { current } else { proposed }, spec.ty),
                    _ => return Some(vis),
                }
            }
        }
        Ty::TxIn | Ty::TxInWitness | Ty::AssetIssuance | Ty::OutPoint | Ty::Sequence => {
            let t = whole!(elements::Transaction, Kind::Tx);
            if t.input.is_empty() {
                return Some(vis);
            }
            let mut i = t.input[p.usize_below(t.input.len())].clone();
            match spec.ty {
                Ty::TxIn => {
                    // a stand-alone TxIn does not carry its witness
                    i.witness = Default::default();
                    vis.visit(i, spec.ty)
                }
                Ty::TxInWitness => vis.visit(i.witness, spec.ty),
                Ty::AssetIssuance => vis.visit(i.asset_issuance, spec.ty),
                Ty::OutPoint => vis.visit(i.previous_output, spec.ty),
                _ => vis.visit(i.sequence, spec.ty),
            }
        }
        Ty::TxOut | Ty::TxOutWitness | Ty::Asset | Ty::Value | Ty::Nonce | Ty::Script => {
            let t = whole!(elements::Transaction, Kind::Tx);
            if t.output.is_empty() {
                return Some(vis);
            }
            let mut o = t.output[p.usize_below(t.output.len())].clone();
            match spec.ty {
                Ty::TxOut => {
                    o.witness = Default::default();
                    vis.visit(o, spec.ty)
                }
                Ty::TxOutWitness => vis.visit(o.witness, spec.ty),
                Ty::Asset => vis.visit(o.asset, spec.ty),
                Ty::Value => vis.visit(o.value, spec.ty),
                Ty::Nonce => vis.visit(o.nonce, spec.ty),
                _ => vis.visit(o.script_pubkey, spec.ty),
            }
        }
        Ty::LockTime => {
            let t = whole!(elements::Transaction, Kind::Tx);
            vis.visit(t.lock_time, spec.ty)
        }
        Ty::PsetGlobal | Ty::PsetInput | Ty::PsetOutput => {
            let ps = whole!(elements::pset::PartiallySignedTransaction, Kind::Pset);
            match spec.ty {
                Ty::PsetGlobal => vis.visit(ps.global.clone(), spec.ty),
                Ty::PsetInput if !ps.inputs().is_empty() => vis.visit(ps.inputs()[p.usize_below(ps.inputs().len())].clone(), spec.ty),
                Ty::PsetOutput if !ps.outputs().is_empty() => vis.visit(ps.outputs()[p.usize_below(ps.outputs().len())].clone(), spec.ty),
                _ => return Some(vis),
            }
        }
        Ty::PsetKey | Ty::PsetPair | Ty::PsetPropKey => return Some(vis),
    }
    None
}

/// A transaction produced by the library's own constructors / blinding functions.
pub fn constructed_tx(spec: &ObjSpec, k: u8) -> elements::Transaction {
    use crate::seams::{Personality, RngPlan, SimRng};
    use elements::confidential::{Asset, Nonce, Value};
    use elements::{AssetIssuance, OutPoint, Transaction, TxIn, TxOut};
    let secp = gen::secp();
    let mut p = Prng::from_u64(spec.seed ^ 0xC0_57);
    let mut rng = SimRng::new(&RngPlan { seed: spec.seed ^ 0x51, personality: Personality::Uniform });
    match k % 4 {
        0 => {
            // explicit issuances of every shape, blinded through TxIn::blind_issuances; the issuance range proofs are
            // then (often) the only witness data of the whole transaction
            let n_in = p.urange(1, 3);
            let mut input = Vec::new();
            for _ in 0..n_in {
                let mut i = TxIn { previous_output: OutPoint::new(gen::txid(&mut p), p.below(4) as u32), ..Default::default() };
                let shape = p.below(4);
                if shape < 3 {
                    i.asset_issuance = AssetIssuance {
                        asset_blinding_nonce: if p.chance(1, 4) { *p.pick(&gen::pool().tweaks) } else { gen::ZERO_TWEAK },
                        asset_entropy: p.arr32(),
                        amount: if shape == 2 { Value::Null } else { Value::Explicit(1 + p.below(1 << 40)) },
                        inflation_keys: if shape >= 1 { Value::Explicit(1 + p.below(1000)) } else { Value::Null },
                    };
                    if p.chance(3, 4) {
                        let _ = i.blind_issuances(secp, &mut rng);
                    }
                }
                if p.chance(1, 5) {
                    i.witness.script_witness = gen::witness_stack(&mut p, 3, 40);
                }
                input.push(i);
            }
            let output = (0..p.urange(0, 3)).map(|_| if p.coin() { TxOut::new_fee(p.below(10_000), gen::asset_id(&mut p)) } else { TxOut { asset: Asset::Explicit(gen::asset_id(&mut p)), value: Value::Explicit(1 + p.below(1 << 50)), nonce: Nonce::Null, script_pubkey: crate::worlds::ct::addressable_script(&mut p), witness: Default::default() } }).collect();
            Transaction { version: 2, lock_time: gen::lock_time(&mut p), input, output }
        }
        1 => {
            let w = crate::worlds::ct::build(&crate::worlds::ct::CtSpec::draw(&mut p));
            let mut tx = w.tx.clone();
            let _ = tx.blind(&mut rng, secp, &w.secrets, false);
            tx
        }
        2 => {
            // (extraction of an ARBITRARY PSET is a conversion, not a constructor: a PSET input may carry an issuance
            // nonce without any issuance amount, which extract_tx copies into a non-canonical null-amount issuance;
            // only PSETs made from canonical transactions are used here)
            let mut s = spec.tx.clone();
            s.coinbase = false;
            let ps = elements::pset::PartiallySignedTransaction::from_tx(crate::worlds::psetflow::wellformed_tx(&s));
            ps.extract_tx().unwrap_or_else(|_| Transaction { version: 2, lock_time: elements::LockTime::ZERO, input: vec![], output: vec![] })
        }
        _ => Transaction {
            version: 2,
            lock_time: elements::LockTime::ZERO,
            input: (0..p.usize_below(3)).map(|_| TxIn::default()).collect(),
            output: (0..p.usize_below(3)).map(|_| if p.coin() { TxOut::default() } else { TxOut::new_fee(p.u64(), gen::asset_id(&mut p)) }).collect(),
        },
    }
}

fn visit_constructed<V: ObjVisitor>(spec: &ObjSpec, vis: V) -> Option<V> {
    let Some(k) = spec.constructed else { return Some(vis) };
    let mut p = Prng::from_u64(spec.seed ^ 0xDEF);
    match spec.ty {
        Ty::Transaction => vis.visit(constructed_tx(spec, k), spec.ty),
        Ty::TxIn => vis.visit(elements::TxIn::default(), spec.ty),
        Ty::TxOut => vis.visit(if p.coin() { elements::TxOut::default() } else { elements::TxOut::new_fee(p.u64(), gen::asset_id(&mut p)) }, spec.ty),
        Ty::TxInWitness => vis.visit(elements::TxInWitness::default(), spec.ty),
        Ty::TxOutWitness => vis.visit(elements::TxOutWitness::default(), spec.ty),
        Ty::AssetIssuance => vis.visit(if p.coin() { elements::AssetIssuance::default() } else { elements::AssetIssuance::null() }, spec.ty),
        Ty::OutPoint => vis.visit(if p.coin() { elements::OutPoint::default() } else { elements::OutPoint::null() }, spec.ty),
        Ty::Sequence => vis.visit(elements::Sequence::default(), spec.ty),
        Ty::Script => vis.visit(match p.below(4) { 0 => elements::Script::default(), 1 => elements::Script::new_op_return(&p.bytes(20)), 2 => elements::script::Builder::new().push_int(p.u32() as i64 - (1 << 31)).push_slice(&{ let n = p.usize_below(80); p.bytes(n) }).into_script(), _ => elements::Script::new_v0_wsh(&elements::WScriptHash::from_byte_array(p.arr32())) }, spec.ty),
        Ty::Params => vis.visit(match p.below(3) { 0 => elements::dynafed::Params::default(), 1 => gen::params(&mut p, 60), _ => match gen::params(&mut p, 60) { elements::dynafed::Params::Full(f) => f.into_compact(), other => other } }, spec.ty),
        Ty::BlockHeader => {
            let mut h = gen::header(&mut p, 60);
            h.ext = elements::BlockExtData::default();
            vis.visit(h, spec.ty)
        }
        Ty::Asset => vis.visit(elements::confidential::Asset::default(), spec.ty),
        Ty::Value => vis.visit(elements::confidential::Value::default(), spec.ty),
        Ty::Nonce => vis.visit(elements::confidential::Nonce::default(), spec.ty),
        Ty::Pset => {
            use elements::pset::PartiallySignedTransaction as Pset;
            let ps = match k % 3 {
                0 => Pset::default(),
                1 => Pset::new_v2(),
                _ => {
                    let mut s = spec.tx.clone();
                    s.coinbase = false;
                    Pset::from_tx(crate::worlds::psetflow::wellformed_tx(&s))
                }
            };
            vis.visit(ps, spec.ty)
        }
        _ => return Some(vis),
    }
    None
}

/// the transaction a spec stands for, when it is one (for segment maps)
pub fn spec_tx(spec: &ObjSpec) -> elements::Transaction {
    if let Some(n) = spec.corpus {
        if let Some(Ok(t)) = crate::corpus::tx(n) {
            return t;
        }
    }
    if let Some(k) = spec.constructed {
        return constructed_tx(spec, k);
    }
    gen::tx(&spec.tx)
}

pub fn build_and_visit<V: ObjVisitor>(spec: &ObjSpec, vis: V) {
    let Some(vis) = visit_corpus(spec, vis) else { return };
    let Some(vis) = visit_constructed(spec, vis) else { return };
    let mut p = Prng::from_u64(spec.seed);
    let s = &spec.tx;
    match spec.ty {
        Ty::Transaction => vis.visit(gen::tx(s), spec.ty),
        Ty::TxIn => vis.visit(gen::txin(&mut p, s, true, false), spec.ty),
        Ty::TxOut => vis.visit(gen::txout(&mut p, s, false), spec.ty),
        Ty::TxInWitness => {
            let mut s2 = s.clone();
            s2.in_witness = true;
            vis.visit(gen::txin(&mut p, &s2, false, true).witness, spec.ty)
        }
        Ty::TxOutWitness => {
            let mut s2 = s.clone();
            s2.out_witness = true;
            vis.visit(gen::txout(&mut p, &s2, true).witness, spec.ty)
        }
        Ty::Block => vis.visit(gen::block(spec.seed, spec.n_tx, s), spec.ty),
        Ty::BlockHeader => vis.visit(gen::header(&mut p, s.max_blob), spec.ty),
        Ty::Params => vis.visit(gen::params(&mut p, s.max_blob), spec.ty),
        Ty::Asset => {
            let k = gen::conf_kind(&mut p, true, true);
            vis.visit(gen::asset(&mut p, k), spec.ty)
        }
        Ty::Value => {
            let k = gen::conf_kind(&mut p, true, true);
            vis.visit(gen::value(&mut p, k), spec.ty)
        }
        Ty::Nonce => {
            let k = gen::conf_kind(&mut p, true, true);
            vis.visit(gen::nonce(&mut p, k), spec.ty)
        }
        Ty::AssetIssuance => vis.visit(if p.chance(1, 8) { elements::AssetIssuance::null() } else { gen::issuance(&mut p, true) }, spec.ty),
        Ty::OutPoint => vis.visit(elements::OutPoint::new(gen::txid(&mut p), p.u32()), spec.ty),
        Ty::Script => vis.visit(gen::script(&mut p, s.max_blob), spec.ty),
        Ty::LockTime => vis.visit(gen::lock_time(&mut p), spec.ty),
        Ty::Sequence => vis.visit(gen::sequence(&mut p), spec.ty),
        Ty::Pset => vis.visit(crate::psetgen::pset(spec.pset.as_ref().expect("pset spec")), spec.ty),
        Ty::PsetKey => vis.visit(crate::psetgen::raw_key(&mut p), spec.ty),
        Ty::PsetPair => vis.visit(crate::psetgen::raw_pair(&mut p), spec.ty),
        Ty::PsetPropKey => vis.visit(crate::psetgen::prop_key(&mut p), spec.ty),
        // the three maps are public Encodable + Decodable types of their own
        Ty::PsetGlobal => vis.visit(crate::psetgen::pset(&map_spec(spec, &mut p)).global, spec.ty),
        Ty::PsetInput => vis.visit(crate::psetgen::input(&mut p, &map_spec(spec, &mut Prng::from_u64(spec.seed ^ 1))), spec.ty),
        Ty::PsetOutput => vis.visit(crate::psetgen::output(&mut p, &map_spec(spec, &mut Prng::from_u64(spec.seed ^ 1)), 3), spec.ty),
    }
}

fn map_spec(spec: &ObjSpec, p: &mut Prng) -> crate::psetgen::PsetSpec {
    spec.pset.clone().unwrap_or_else(|| crate::psetgen::PsetSpec::draw(p))
}

// ------------------------------------------------------------------------------------------------
// generation: needs the reference bytes to aim faults

struct GenVisitor<'a> {
    p: &'a mut Prng,
    spec: &'a ObjSpec,
    scenario: &'a str,
    out: &'a mut Option<Case>,
}

fn tx_byzantine(p: &mut Prng, t: &elements::Transaction, reference: &[u8], segs: &[Seg]) -> Option<Delivery> {
    match p.below(3) {
        0 if !t.has_witness() && reference.len() > 5 => {
            // witness flag 1 with all-empty witnesses
            let mut tail = Vec::new();
            for _ in &t.input {
                tail.extend([0u8; 4]);
            }
            for _ in &t.output {
                tail.extend([0u8; 2]);
            }
            Some(vec![Edit { label: "byz.witness_flag_no_witness".into(), pos: reference.len(), remove: 0, insert: tail }, Edit { label: "byz.witness_flag_no_witness".into(), pos: 4, remove: 1, insert: vec![1] }])
        }
        1 => {
            // superfluous null issuance on an input that has none: set bit 31 of vout, append nonce|entropy|00|00 after sequence
            let mut pos = 4 + 1 + medium::varint_len(t.input.len() as u64);
            // (an index of 2^30-1 on a pegin input would become the coinbase marker 0xffffffff once bit 31 is set)
            let cands: Vec<usize> = (0..t.input.len()).filter(|k| !t.input[*k].has_issuance() && t.input[*k].previous_output.vout < (1 << 30) - 1).collect();
            if cands.is_empty() {
                return None;
            }
            let target = *p.pick(&cands);
            for (k, i) in t.input.iter().enumerate() {
                let start = pos;
                let len = 32 + 4 + medium::varint_len(i.script_sig.len() as u64) + i.script_sig.len() + 4 + if i.has_issuance() { 64 + i.asset_issuance.amount.encoded_length() + i.asset_issuance.inflation_keys.encoded_length() } else { 0 };
                if k == target {
                    let vout_hi = start + 32 + 3;
                    let mut ins = vec![0u8; 64];
                    ins.extend([0u8, 0u8]);
                    return Some(vec![
                        Edit { label: "byz.null_issuance".into(), pos: start + len, remove: 0, insert: ins },
                        Edit { label: "byz.null_issuance".into(), pos: vout_hi, remove: 1, insert: vec![reference.get(vout_hi).copied().unwrap_or(0) | 0x80] },
                    ]);
                }
                pos += len;
            }
            None
        }
        _ => {
            // unknown confidential prefix / bad witness flag: a tag byte set to a value outside its admissible set
            let tags: Vec<&Seg> = segs.iter().filter(|s| s.kind == SegKind::Tag && s.len == 1).collect();
            if tags.is_empty() {
                return None;
            }
            let s = p.pick(&tags);
            let v = *p.pick(&[4u8, 5, 6, 7, 0x0c, 0x10, 0x20, 0x80, 0xff, 0x0d]);
            Some(vec![Edit { label: "byz.bad_tag".into(), pos: s.pos, remove: 1, insert: vec![v] }])
        }
    }
}

impl<'a> ObjVisitor for GenVisitor<'a> {
    fn rejected(self, _ty: Ty, _what: String) {
        // the case is still produced: executing it reports the refusal
        *self.out = Some(Case {
            obj: self.spec.clone(),
            garbage: None,
            write_plan: IoPlan::perfect(),
            write_fault: None,
            read_plan: IoPlan::perfect(),
            read_fault: None,
            sweep: false,
            deliveries: vec![],
            delivery_plan: IoPlan::perfect(),
        });
    }
    fn visit<T: Encodable + Decodable + PartialEq + Debug>(self, v: T, ty: Ty) {
        let p = self.p;
        let reference: Vec<u8> = guard(|| encode::serialize(&v)).unwrap_or_default();
        let n = reference.len();
        let faulty = self.scenario != "faultfree";
        let segs: Option<Vec<Seg>> = match ty {
            Ty::Transaction => {
                // the value is a Transaction: recover it through Any-free means (re-generate)
                let t = spec_tx(self.spec);
                medium::tx_segments(&t, n)
            }
            Ty::Pset => Some(medium::pset_segments(&reference)),
            _ => None,
        };
        let mut deliveries: Vec<Delivery> = Vec::new();
        if faulty {
            let k = match self.scenario {
                "corrupt" => p.urange(4, 12),
                _ => p.urange(0, 3),
            };
            for _ in 0..k {
                let d = medium::draw_delivery(p, &reference, segs.as_deref());
                if !d.is_empty() {
                    deliveries.push(d);
                }
            }
            if ty == Ty::Transaction {
                if let Some(segs) = &segs {
                    let t = spec_tx(self.spec);
                    for _ in 0..2 {
                        if let Some(d) = tx_byzantine(p, &t, &reference, segs) {
                            deliveries.push(d);
                        }
                    }
                }
            }
            if ty == Ty::Pset {
                for _ in 0..3 {
                    if let Some(d) = crate::psetgen::pset_byzantine(p, &reference) {
                        deliveries.push(d);
                    }
                }
                for _ in 0..3 {
                    if let Some(d) = crate::psetgen::pset_resize_value(p, &reference) {
                        deliveries.push(d);
                    }
                }
            }
        }
        let hard_w = |p: &mut Prng| match p.below(4) {
            0 => HardKind::StorageFull,
            1 => HardKind::BrokenPipe,
            2 => HardKind::Other,
            _ => HardKind::WriteZero,
        };
        let hard_r = |p: &mut Prng| match p.below(4) {
            0 => HardKind::ConnectionReset,
            1 => HardKind::TimedOut,
            2 => HardKind::Other,
            _ => HardKind::Eof,
        };
        let write_fault = if faulty && n > 0 && p.chance(1, 2) { Some((p.usize_below(n), hard_w(p))) } else { None };
        let read_fault = if faulty && n > 0 && p.chance(1, 2) { Some((p.usize_below(n), hard_r(p))) } else { None };
        *self.out = Some(Case {
            obj: self.spec.clone(),
            garbage: None,
            write_plan: IoPlan::draw_benign(p),
            write_fault,
            read_plan: IoPlan::draw_benign(p),
            read_fault,
            sweep: faulty && n <= 300 && p.chance(1, 4),
            deliveries,
            delivery_plan: IoPlan::draw_benign(p),
        });
    }
}

// ------------------------------------------------------------------------------------------------
// execution

struct ExecVisitor<'a> {
    case: &'a Case,
    ctx: &'a mut Ctx,
}

fn decode_via_seam<T: Decodable>(ctx: &mut Ctx, name: &str, bytes: &[u8], plan: &IoPlan) -> Option<(Result<T, encode::Error>, usize)> {
    let mut r = SimReader::new(bytes, plan);
    let res = ctx.call(name, bytes.len(), || T::consensus_decode(&mut r));
    let consumed = r.consumed();
    ctx.io_counts("read", &r.counts);
    res.map(|x| (x, consumed))
}

fn err_class(e: &encode::Error) -> String {
    let s = format!("{:?}", e);
    s.split(|c: char| !c.is_alphanumeric()).next().unwrap_or("?").to_string()
}

impl<'a> ExecVisitor<'a> {
    fn inv(&self, ty: Ty, suffix: &str) -> String {
        format!("{}.{}", ty.prop(), suffix)
    }
}

fn check_accepted<T: Encodable + Decodable + PartialEq + Debug>(ctx: &mut Ctx, ty: Ty, tyname: &str, label: &str, b: &[u8], plan: &IoPlan) {
    let prop = ty.prop();
    // the real API first: deserialize (must consume everything)
    let via_api = ctx.call(&format!("deserialize<{}>", tyname), b.len(), || encode::deserialize::<T>(b));
    let Some(via_api) = via_api else {
        // the panic itself is reported under C10; a forbidden framing that makes the decoder panic was not "rejected"
        if label.starts_with("byz.") {
            ctx.violate(&format!("{}.reject.{}", prop, &label[4..]), &format!("{}|panic", tyname), format!("{}: the decoder panicked on a non-canonical re-encoding ({}) instead of rejecting it", tyname, label));
        }
        return;
    };
    // the same bytes through the seam
    let via_seam = decode_via_seam::<T>(ctx, &format!("consensus_decode<{}>", tyname), b, plan);
    match &via_api {
        Ok(v) => {
            ctx.probe("corrupt_accepted");
            ctx.sig("acc");
            let re = guard(|| encode::serialize(v));
            match re {
                Ok(re) => {
                    if prop == "C01" {
                        ctx.check(re == b, "C01.accept.reencode", &format!("{}|{}", tyname, label), || {
                            format!("{}: decoder accepted {} bytes (fault {}), re-encoding gives {} bytes that differ (first difference at {:?})", tyname, b.len(), label, re.len(), re.iter().zip(b.iter()).position(|(x, y)| x != y))
                        });
                    } else {
                        // C07: fixpoint on c = encode(decode(b)), not on b
                        let c = re;
                        let d2 = ctx.call(&format!("deserialize<{}>", tyname), c.len(), || encode::deserialize::<T>(&c));
                        match d2 {
                            Some(Ok(v2)) => {
                                ctx.check(v2 == *v, "C07.accept.fixpoint", &format!("{}|value", tyname), || format!("{}: decode(encode(decode(b))) differs from decode(b) (fault {})", tyname, label));
                                let c2 = guard(|| encode::serialize(&v2)).unwrap_or_default();
                                ctx.check(c2 == c, "C07.accept.fixpoint", &format!("{}|bytes", tyname), || format!("{}: re-encoding the canonical form changes it again: {} vs {} bytes (fault {})", tyname, c.len(), c2.len(), label));
                            }
                            Some(Err(e)) => ctx.violate("C07.accept.fixpoint", &format!("{}|redecode", tyname), format!("{}: canonical re-encoding of an accepted value is rejected: {:?} (fault {})", tyname, e, label)),
                            None => {}
                        }
                    }
                    if label.starts_with("byz.") {
                        // byzantine re-framings keep the meaning and change the bytes: acceptance is non-canonical
                        let inv = format!("{}.reject.{}", prop, &label[4..]);
                        ctx.violate(&inv, tyname, format!("{}: non-canonical re-encoding ({}) accepted", tyname, label));
                    }
                }
                Err(m) => ctx.violate("C10.panic", &format!("serialize<{}>|{}", tyname, crate::ctx::panic_key(&m)), format!("serialize of an accepted {} panicked: {}", tyname, m)),
            }
        }
        Err(e) => {
            ctx.probe(&format!("err.{}", err_class(e)));
            if label.starts_with("byz.") {
                ctx.stats.add(&format!("checked.{}.reject.{}", prop, &label[4..]), 1);
            }
        }
    }
    // seam and API must agree on acceptance (chunking / EINTR invisible also on corrupted input)
    if let Some((seam_res, consumed)) = via_seam {
        let seam_accepts = seam_res.is_ok() && consumed == b.len();
        let api_accepts = via_api.is_ok();
        if !ty.reads_to_end() {
            ctx.check(seam_accepts == api_accepts, &format!("{}.read.value", prop), &format!("{}|corrupt-agree", tyname), || {
                format!("{}: deserialize says {} but chunked/EINTR reader says {} (consumed {} of {}) for fault {}", tyname, if api_accepts { "Ok" } else { "Err" }, if seam_res.is_ok() { "Ok" } else { "Err" }, consumed, b.len(), label)
            });
        }
        if let (Ok(a), Ok(s)) = (&via_api, &seam_res) {
            if consumed == b.len() {
                ctx.check(a == s, &format!("{}.read.value", prop), &format!("{}|corrupt-equal", tyname), || format!("{}: value decoded through the seam differs from deserialize()", tyname));
            }
        }
    }
}

impl<'a> ObjVisitor for ExecVisitor<'a> {
    fn rejected(self, ty: Ty, what: String) {
        self.ctx.sig("corpus-rejected");
        self.ctx.violate(&format!("{}.rtt", ty.prop()), &format!("{:?}|corpus", ty), what);
    }
    fn visit<T: Encodable + Decodable + PartialEq + Debug>(self, v: T, ty: Ty) {
        let case = self.case;
        let tyname = format!("{:?}", ty);
        let tyname = tyname.as_str();
        let prop = ty.prop();
        let ctx = self.ctx;
        ctx.sig(tyname);
        if case.obj.corpus.is_some() {
            ctx.sig("corpus");
            ctx.probe("corpus_vector");
        }
        if let Some(k) = case.obj.constructed {
            ctx.sig_n("constructed", (k % 4) as u64);
            ctx.probe("constructed_value");
        }
        // ---- reference: the library's own serialize() on a perfect medium
        let Some(reference) = ctx.call(&format!("serialize<{}>", tyname), 0, || encode::serialize(&v)) else {
            ctx.violate(&format!("{}.rtt", prop), &format!("{}|serialize-panic", tyname), format!("serialize of a generated canonical {} panicked", tyname));
            return;
        };
        let n = reference.len();
        ctx.ev_bytes("reference", &reference);
        ctx.sig_n("lenclass", (n as f64).log2() as u64);

        // ---- C01.rtt
        let mut rtt_ok = false;
        match ctx.call(&format!("deserialize<{}>", tyname), n, || encode::deserialize::<T>(&reference)) {
            Some(Ok(v2)) => {
                rtt_ok = ctx.check(v2 == v, &format!("{}.rtt", prop), tyname, || format!("{}: decode(encode(v)) != v\n v = {}\n v'= {}", tyname, diff_excerpt(&v, &v2).0, diff_excerpt(&v, &v2).1));
                if prop == "C07" {
                    let c2 = guard(|| encode::serialize(&v2)).unwrap_or_default();
                    ctx.check(c2 == reference, "C07.rtt.bytes", tyname, || format!("{}: encode(decode(encode(p))) != encode(p): {} vs {} bytes, first difference at {:?}", tyname, c2.len(), n, c2.iter().zip(reference.iter()).position(|(x, y)| x != y)));
                }
            }
            Some(Err(e)) => ctx.violate(&format!("{}.rtt", prop), &format!("{}|rejected", tyname), format!("{}: own encoding rejected: {:?}; value {:?}", tyname, e, trunc(&v))),
            None => ctx.violate(&format!("{}.rtt", prop), &format!("{}|panic", tyname), format!("{}: decoding own encoding panicked", tyname)),
        }

        if !rtt_ok {
            // the seam and fault checks below compare against this round trip; do not cascade
            return;
        }

        // ---- write through the seam (benign schedule): same bytes, same length
        {
            let mut w = SimWriter::new(&case.write_plan);
            let r = ctx.call(&format!("consensus_encode<{}>", tyname), 0, || v.consensus_encode(&mut w));
            ctx.io_counts("write", &w.counts);
            match r {
                Some(Ok(len)) => {
                    ctx.check(w.accepted == reference, &format!("{}.write.bytes", prop), tyname, || {
                        format!("{}: bytes accepted by a short-writing/EINTR writer (chunk {}) differ from serialize(): {} vs {} bytes, first difference at {:?}", tyname, case.write_plan.max_chunk, w.accepted.len(), n, w.accepted.iter().zip(reference.iter()).position(|(x, y)| x != y))
                    });
                    ctx.check(len == w.accepted.len() && len == n, &format!("{}.write.len", prop), tyname, || format!("{}: encoder reported {} bytes, medium holds {}, reference is {}", tyname, len, w.accepted.len(), n));
                }
                Some(Err(e)) => ctx.violate(&format!("{}.write.bytes", prop), &format!("{}|err", tyname), format!("{}: encoding into a benign writer failed: {:?}", tyname, e)),
                None => {}
            }
        }
        // ---- write with a hard fault at byte k
        let mut write_faults: Vec<(usize, HardKind)> = case.write_fault.iter().cloned().collect();
        let mut read_faults: Vec<(usize, HardKind)> = case.read_fault.iter().cloned().collect();
        if case.sweep {
            for k in 0..n {
                write_faults.push((k, if k % 2 == 0 { HardKind::StorageFull } else { HardKind::WriteZero }));
                read_faults.push((k, if k % 2 == 0 { HardKind::Eof } else { HardKind::ConnectionReset }));
            }
        }
        for (k, kind) in &write_faults {
            if *k >= n {
                continue;
            }
            let mut plan = case.write_plan.clone();
            plan.hard = Some((*k, kind.clone()));
            let mut w = SimWriter::new(&plan);
            let r = ctx.call(&format!("consensus_encode<{}>", tyname), 0, || v.consensus_encode(&mut w));
            ctx.io_counts("write", &w.counts);
            match r {
                Some(Err(e)) => {
                    ctx.probe(&format!("err.{}", err_class(&e)));
                    let prefix_ok = w.accepted.len() <= *k && reference.starts_with(&w.accepted);
                    ctx.check(prefix_ok, &format!("{}.write.err", prop), &format!("{}|prefix", tyname), || format!("{}: after a write fault at byte {} the medium holds {} bytes that are not a prefix of the reference", tyname, k, w.accepted.len()));
                }
                Some(Ok(len)) => ctx.violate(&format!("{}.write.err", prop), &format!("{}|ok", tyname), format!("{}: write fault {:?} at byte {} of {} but encoder returned Ok({}) with {} bytes on the medium", tyname, kind, k, n, len, w.accepted.len())),
                None => {}
            }
        }

        // ---- read the reference through the seam (benign): same value, all consumed, no more
        if let Some((res, consumed)) = decode_via_seam::<T>(ctx, &format!("consensus_decode<{}>", tyname), &reference, &case.read_plan) {
            match res {
                Ok(v2) => {
                    ctx.check(v2 == v, &format!("{}.read.value", prop), tyname, || format!("{}: value decoded from a chunked/EINTR reader (chunk {}) differs from the original", tyname, case.read_plan.max_chunk));
                    ctx.check(consumed == n, &format!("{}.read.consumed", prop), tyname, || format!("{}: decoder took {} bytes from the reader, encoding has {}", tyname, consumed, n));
                }
                Err(e) => ctx.violate(&format!("{}.read.value", prop), &format!("{}|err", tyname), format!("{}: decoding own encoding from a chunked/EINTR reader (chunk {}, eintr {}) failed: {:?}", tyname, case.read_plan.max_chunk, case.read_plan.eintr_per_1024, e)),
            }
        }
        // deserialize_partial reports the true length when followed by other data
        if !ty.reads_to_end() {
            let mut ext = reference.clone();
            ext.extend_from_slice(&[0xAB, 0xCD, 0xEF]);
            match ctx.call(&format!("deserialize_partial<{}>", tyname), ext.len(), || encode::deserialize_partial::<T>(&ext)) {
                Some(Ok((v2, used))) => {
                    ctx.check(used == n && v2 == v, &format!("{}.read.consumed", prop), &format!("{}|partial", tyname), || format!("{}: deserialize_partial consumed {} of a {}-byte encoding followed by 3 more bytes", tyname, used, n));
                }
                Some(Err(e)) => ctx.violate(&format!("{}.read.consumed", prop), &format!("{}|partial-err", tyname), format!("{}: deserialize_partial of encoding + trailing bytes failed: {:?}", tyname, e)),
                None => {}
            }
            let r = ctx.call(&format!("deserialize<{}>", tyname), ext.len(), || encode::deserialize::<T>(&ext));
            if let Some(r) = r {
                ctx.check(r.is_err(), &format!("{}.accept.trailing", prop), tyname, || format!("{}: deserialize accepted an encoding followed by 3 trailing bytes", tyname));
            }
        }
        // ---- read with a hard fault / early EOF at byte k
        for (k, kind) in &read_faults {
            if *k >= n {
                continue;
            }
            let mut plan = case.read_plan.clone();
            plan.hard = Some((*k, kind.clone()));
            if let Some((res, _)) = decode_via_seam::<T>(ctx, &format!("consensus_decode<{}>", tyname), &reference, &plan) {
                match res {
                    Err(e) => ctx.probe(&format!("err.{}", err_class(&e))),
                    Ok(_) if ty.reads_to_end() && *kind == HardKind::Eof => {} // EOF is how this type ends
                    Ok(_) => ctx.violate(&format!("{}.read.err", prop), tyname, format!("{}: read fault {:?} at byte {} of {} but decoder returned Ok", tyname, kind, k, n)),
                }
            }
        }

        // ---- what the medium did to the bytes in flight
        for d in &case.deliveries {
            let b = medium::apply(&reference, d);
            if b == reference {
                continue;
            }
            // a delivery that mixes fault kinds is just "corruption": the byzantine rejection claim only
            // applies to a pure re-framing
            let first = d.iter().map(|e| e.label.as_str()).next().unwrap_or("?");
            let label = if d.iter().all(|e| e.label == first) { first.to_string() } else { format!("mixed.{}", first.trim_start_matches("byz.")) };
            ctx.fault(&label, 1);
            check_accepted::<T>(ctx, ty, tyname, &label, &b, &case.delivery_plan);
        }
    }
}

/// the part of two Debug renderings around their first difference
fn diff_excerpt<T: Debug>(a: &T, b: &T) -> (String, String) {
    let (sa, sb) = (format!("{:?}", a), format!("{:?}", b));
    let k = sa.bytes().zip(sb.bytes()).position(|(x, y)| x != y).unwrap_or(sa.len().min(sb.len()));
    let lo = k.saturating_sub(200);
    let cut = |s: &str| {
        let lo = (0..=lo).rev().find(|i| s.is_char_boundary(*i)).unwrap_or(0);
        let hi = (k + 200).min(s.len());
        let hi = (hi..=s.len()).find(|i| s.is_char_boundary(*i)).unwrap_or(s.len());
        format!("…{}…", &s[lo..hi])
    };
    (cut(&sa), cut(&sb))
}

fn trunc<T: Debug>(v: &T) -> String {
    let s = format!("{:?}", v);
    if s.len() > 600 {
        format!("{}…[{} chars]", &s[..600], s.len())
    } else {
        s
    }
}

struct GarbageVisitor<'a> {
    bytes: &'a [u8],
    ctx: &'a mut Ctx,
    plan: &'a IoPlan,
}
impl<'a> ObjVisitor for GarbageVisitor<'a> {
    fn visit<T: Encodable + Decodable + PartialEq + Debug>(self, _v: T, ty: Ty) {
        let tyname = format!("{:?}", ty);
        self.ctx.sig(&tyname);
        self.ctx.fault("garbage", 1);
        check_accepted::<T>(self.ctx, ty, &tyname, "garbage", self.bytes, self.plan);
    }
}

pub struct CodecWorld;

fn draw_obj(p: &mut Prng, types: &[Ty]) -> ObjSpec {
    let ty = *p.pick(types);
    let mut tx = TxSpec::draw(p, 8, 8);
    let n_tx = p.usize_below(4);
    if ty == Ty::Block {
        tx.max_blob = tx.max_blob.min(300);
    }
    if ty == Ty::Script && p.chance(1, 1200) {
        // a script at the very size limit of the decoders
        tx.max_blob = 4_000_000;
    }
    let pset = if matches!(ty, Ty::Pset | Ty::PsetGlobal | Ty::PsetInput | Ty::PsetOutput) { Some(crate::psetgen::PsetSpec::draw(p)) } else { None };
    // one object in eight is (or is cut out of) one of the repository's own vectors
    let n = p.u32();
    let corpus = if p.chance(1, 8) { Some(n) } else { None };
    // one in eight comes out of a library constructor / blinding function
    let k = p.u8();
    let constructed = if corpus.is_none() && p.chance(1, 7) { Some(k) } else { None };
    ObjSpec { ty, seed: p.u64(), tx, n_tx, pset, corpus, constructed }
}

impl World for CodecWorld {
    type Case = Case;
    fn name(&self) -> &'static str {
        "codec"
    }
    fn generate(&self, p: &mut Prng, scenario: &str, _run: u64) -> Case {
        // scenario = "<typeset>:<mode>", typeset in {consensus, pset}, mode in {faultfree, faulty, corrupt, garbage}
        let (set, mode) = scenario.split_once(':').unwrap_or(("consensus", scenario));
        let types: &[Ty] = if set == "pset" { &PSET_TYPES } else { &CONSENSUS_TYPES };
        // transactions and PSETs are the rich types: half of the runs
        let spec = if p.coin() { draw_obj(p, &types[..1]) } else { draw_obj(p, types) };
        if mode == "garbage" && spec.ty == Ty::Script && p.chance(1, 2) {
            // a length L at a varint boundary, written in a drawn prefix width (minimal or not), followed by L bytes (or one
            // fewer / one more): whatever is accepted must re-encode to exactly these bytes
            let l = *p.pick(&[0usize, 1, 0xfc, 0xfd, 0xfe, 0xff, 0x100, 0xfffe, 0xffff, 0x10000, 0x10001]);
            let mut bytes = match p.below(4) {
                0 => medium::varint_bytes(l as u64),
                1 => { let mut b = vec![0xfd]; b.extend((l as u16).to_le_bytes()); b }
                2 => { let mut b = vec![0xfe]; b.extend((l as u32).to_le_bytes()); b }
                _ => { let mut b = vec![0xff]; b.extend((l as u64).to_le_bytes()); b }
            };
            let body = match p.below(6) { 0 => l.saturating_sub(1), 1 => l + 1, _ => l };
            bytes.extend(p.bytes(body));
            return Case { obj: spec, garbage: Some(bytes), write_plan: IoPlan::perfect(), write_fault: None, read_plan: IoPlan::perfect(), read_fault: None, sweep: false, deliveries: vec![], delivery_plan: IoPlan::draw_benign(p) };
        }
        if mode == "garbage" {
            let n = p.len_biased(400);
            let mut bytes = p.bytes(n);
            if set == "pset" && spec.ty == Ty::Pset && p.chance(3, 4) && bytes.len() >= 5 {
                bytes[..5].copy_from_slice(b"pset\xff");
            }
            return Case { obj: spec, garbage: Some(bytes), write_plan: IoPlan::perfect(), write_fault: None, read_plan: IoPlan::perfect(), read_fault: None, sweep: false, deliveries: vec![], delivery_plan: IoPlan::draw_benign(p) };
        }
        let mut out = None;
        build_and_visit(&spec, GenVisitor { p, spec: &spec, scenario: mode, out: &mut out });
        out.expect("case generated")
    }
    fn execute(&self, case: &Case, ctx: &mut Ctx) {
        ctx.ev("codec.start", case.obj.seed);
        if let Some(g) = &case.garbage {
            build_and_visit(&case.obj, GarbageVisitor { bytes: g, ctx, plan: &case.delivery_plan });
        } else {
            build_and_visit(&case.obj, ExecVisitor { case, ctx });
        }
        ctx.ev("codec.end", ctx.steps);
    }
    fn shrink(&self, case: &Case, _v: &Violation) -> Vec<Case> {
        let mut out = Vec::new();
        // fewer deliveries first (they dominate), then simpler plans, then a simpler object
        if case.deliveries.len() > 1 {
            for i in 0..case.deliveries.len() {
                out.push(Case { deliveries: vec![case.deliveries[i].clone()], ..case.clone() });
            }
        }
        // a byzantine re-framing is one logical fault made of several edits: never split it
        if case.deliveries.len() == 1 && case.deliveries[0].len() > 1 && !case.deliveries[0].iter().any(|e| e.label.starts_with("byz.")) {
            for i in 0..case.deliveries[0].len() {
                out.push(Case { deliveries: vec![vec![case.deliveries[0][i].clone()]], ..case.clone() });
            }
        }
        if !case.deliveries.is_empty() {
            out.push(Case { deliveries: vec![], ..case.clone() });
        }
        if case.sweep {
            out.push(Case { sweep: false, ..case.clone() });
        }
        if case.write_fault.is_some() {
            out.push(Case { write_fault: None, ..case.clone() });
        }
        if case.read_fault.is_some() {
            out.push(Case { read_fault: None, ..case.clone() });
        }
        if !case.write_plan.is_perfect() {
            out.push(Case { write_plan: IoPlan::perfect(), ..case.clone() });
            out.push(Case { write_plan: IoPlan { eintr_per_1024: 0, ..case.write_plan.clone() }, ..case.clone() });
        }
        if !case.read_plan.is_perfect() {
            out.push(Case { read_plan: IoPlan::perfect(), ..case.clone() });
            out.push(Case { read_plan: IoPlan { eintr_per_1024: 0, ..case.read_plan.clone() }, ..case.clone() });
        }
        if !case.delivery_plan.is_perfect() {
            out.push(Case { delivery_plan: IoPlan::perfect(), ..case.clone() });
        }
        if let Some(g) = &case.garbage {
            if g.len() > 1 {
                out.push(Case { garbage: Some(g[..g.len() / 2].to_vec()), ..case.clone() });
                out.push(Case { garbage: Some(g[..g.len() - 1].to_vec()), ..case.clone() });
            }
        }
        // object shrinking is only sound when no delivery refers to byte positions of the old encoding
        if case.deliveries.is_empty() && case.garbage.is_none() {
            if case.obj.corpus.is_some() {
                out.push(Case { obj: ObjSpec { corpus: None, ..case.obj.clone() }, write_fault: None, read_fault: None, ..case.clone() });
            }
            if case.obj.constructed.is_some() {
                out.push(Case { obj: ObjSpec { constructed: None, ..case.obj.clone() }, write_fault: None, read_fault: None, ..case.clone() });
            }
            for t in case.obj.tx.shrinks() {
                out.push(Case { obj: ObjSpec { tx: t, ..case.obj.clone() }, write_fault: None, read_fault: None, ..case.clone() });
            }
            if case.obj.n_tx > 0 {
                out.push(Case { obj: ObjSpec { n_tx: case.obj.n_tx - 1, ..case.obj.clone() }, ..case.clone() });
            }
            if let Some(ps) = &case.obj.pset {
                for s in ps.shrinks() {
                    out.push(Case { obj: ObjSpec { pset: Some(s), ..case.obj.clone() }, write_fault: None, read_fault: None, ..case.clone() });
                }
            }
        }
        out
    }
}
