//! elements-sim: deterministic simulation with fault injection for rust-elements.
//! See /verif/DESIGN.md.

mod corpus;
mod ctx;
mod gen;
mod medium;
mod prng;
mod psetgen;
mod registry;
mod report;
mod runner;
mod seams;
mod worlds;

#[global_allocator]
static GLOBAL: seams::CountingAlloc = seams::CountingAlloc;

use std::process::Command;

fn usage() -> ! {
    eprintln!("usage: elements-sim check <ID> <quick|thorough> [--workers N] [--scale F] [--no-evidence]\n       elements-sim replay <path>\n       elements-sim dethash <ID> <quick|thorough> [--workers N] [--scale F]\n       elements-sim gencase <world> <scenario> <seed> <run>");
    std::process::exit(2)
}

fn seed_from_env() -> u64 {
    match std::env::var("VERIF_SEED") {
        Ok(s) if !s.trim().is_empty() => s.trim().parse::<u64>().unwrap_or_else(|_| {
            // accept any string: hash it
            prng::fnv(s.as_bytes())
        }),
        _ => prng::DEFAULT_SEED,
    }
}

struct Args {
    workers: usize,
    scale: f64,
    evidence: bool,
    slots: Option<String>,
    fast_fail: bool,
}

fn parse_flags(rest: &[String]) -> Args {
    let mut a = Args { workers: std::thread::available_parallelism().map(|n| n.get()).unwrap_or(8).min(16), scale: 1.0, evidence: true, slots: None, fast_fail: false };
    let mut i = 0;
    while i < rest.len() {
        match rest[i].as_str() {
            "--workers" => {
                i += 1;
                a.workers = rest.get(i).and_then(|s| s.parse().ok()).unwrap_or_else(|| usage());
            }
            "--scale" => {
                i += 1;
                a.scale = rest.get(i).and_then(|s| s.parse().ok()).unwrap_or_else(|| usage());
            }
            "--slots" => {
                i += 1;
                a.slots = rest.get(i).cloned();
            }
            "--no-evidence" => a.evidence = false,
            "--fast-fail" => {
                a.fast_fail = true;
                a.evidence = false;
            }
            _ => usage(),
        }
        i += 1;
    }
    a
}

fn main() {
    let argv: Vec<String> = std::env::args().collect();
    if argv.len() < 2 {
        usage();
    }
    match argv[1].as_str() {
        // supervisor: runs the worker in a child so that aborts (allocation failure, crash in C code,
        // stack overflow) are localised and reported instead of killing the check silently
        "check" => {
            if argv.len() < 4 {
                usage();
            }
            std::process::exit(supervise(&argv[2], &argv[3], &argv[4..]));
        }
        "worker" => {
            if argv.len() < 4 {
                usage();
            }
            ctx::install_panic_hook();
            let flags = parse_flags(&argv[4..]);
            let Some(spec) = registry::property(&argv[2]) else {
                eprintln!("HARNESS-ERROR: property {} is not claimed by this framework", argv[2]);
                std::process::exit(2);
            };
            let tier = argv[3].clone();
            if tier != "quick" && tier != "thorough" {
                usage();
            }
            let opts = report::CheckOpts { tier, seed: seed_from_env(), workers: flags.workers, scale: flags.scale, slots_path: flags.slots, write_evidence: flags.evidence, fast_fail: flags.fast_fail };
            std::process::exit(report::run_check(&spec, &opts));
        }
        "replay" => {
            if argv.len() < 3 {
                usage();
            }
            ctx::install_panic_hook();
            std::process::exit(report::replay(&argv[2]));
        }
        "dethash" => {
            if argv.len() < 4 {
                usage();
            }
            ctx::install_panic_hook();
            let flags = parse_flags(&argv[4..]);
            let Some(spec) = registry::property(&argv[2]) else { usage() };
            let seed = seed_from_env();
            let slots = runner::Slots::open(None);
            for (ui, u) in spec.units.iter().enumerate() {
                let base = if argv[3] == "thorough" { u.thorough } else { u.quick };
                let runs = ((base as f64 * flags.scale).ceil() as u64).max(1);
                let r = runner::run_unit(u, ui as u64, seed, runs, flags.workers, spec.id, &slots);
                println!("{} {} {} runs={} steps={} violations={} loghash={:016x}", spec.id, u.world.name(), u.scenario, runs, r.agg.steps, r.found.len(), r.loghash);
            }
        }
        // which PSET fields the generator populates (a field stuck at zero is a hole in the C07/C08/C14 workload)
        "fieldcov" => {
            let n: u64 = argv.get(2).and_then(|s| s.parse().ok()).unwrap_or(20_000);
            let mut p = prng::Prng::from_u64(7);
            let mut cov: std::collections::BTreeMap<String, u64> = Default::default();
            fn walk(prefix: &str, v: &serde_json::Value, cov: &mut std::collections::BTreeMap<String, u64>) {
                if let serde_json::Value::Object(m) = v {
                    for (k, x) in m {
                        let empty = match x {
                            serde_json::Value::Null => true,
                            serde_json::Value::Array(a) => a.is_empty(),
                            serde_json::Value::Object(o) => o.is_empty(),
                            _ => false,
                        };
                        let e = cov.entry(format!("{}.{}", prefix, k)).or_insert(0);
                        if !empty {
                            *e += 1;
                        }
                    }
                }
            }
            for _ in 0..n {
                let ps = psetgen::pset(&psetgen::PsetSpec::draw(&mut p));
                let v = serde_json::to_value(&ps).expect("serde");
                walk("global", &v["global"], &mut cov);
                walk("global.tx_data", &v["global"]["tx_data"], &mut cov);
                for i in v["inputs"].as_array().into_iter().flatten() {
                    walk("input", i, &mut cov);
                }
                for o in v["outputs"].as_array().into_iter().flatten() {
                    walk("output", o, &mut cov);
                }
            }
            for (k, c) in cov {
                println!("{:8} {}", c, k);
            }
        }
        "corpus-classify" => {
            println!("{}", corpus::classify());
        }
        "gencase" => {
            if argv.len() < 6 {
                usage();
            }
            let Some(w) = report::world_by_name(&argv[2]) else { usage() };
            let seed: u64 = argv[4].parse().unwrap_or_else(|_| usage());
            let run: u64 = argv[5].parse().unwrap_or_else(|_| usage());
            println!("{}", serde_json::to_string_pretty(&w.case_json(seed, &argv[3], run)).unwrap());
        }
        _ => usage(),
    }
}

/// Run `worker` in a child process. Exit codes 0/1/2 pass through. Death by signal is localised
/// through the slot file, reproduced in a fresh child, and reported as `<ID>.abort` against the property
/// being checked: the library neither returned what the property demands nor rejected the input.
/// A run that does not terminate: confirm by replaying the case in a fresh child under a time limit, then report it
/// against the property being checked (`<ID>.hang`) — the library neither answered nor rejected.
fn report_hang(id: &str, exe: &std::path::Path, stalled: &[(usize, u64)], secs: u64) -> i32 {
    let Some(spec) = registry::property(id) else { return 2 };
    let seed = seed_from_env();
    let mut reported = 0;
    for (ui, run) in stalled.iter().take(2) {
        let Some(u) = spec.units.get(*ui) else { continue };
        let case = u.world.case_json(seed, u.scenario, *run);
        let fname = format!("{}/replays/{}-{}-{}-{}-{}-hang.json", report::verif_root(), id, seed, u.world.name(), u.scenario, run);
        let replay = serde_json::json!({
            "property": id, "invariant": format!("{}.hang", id), "key": "no-progress", "world": u.world.name(), "scenario": u.scenario,
            "seed": seed, "run": run, "minimised": false, "detail": format!("a worker made no progress on this case for {} s: a library call does not terminate", secs), "case": case,
        });
        let _ = std::fs::create_dir_all(format!("{}/replays", report::verif_root()));
        if std::fs::write(&fname, serde_json::to_string_pretty(&replay).unwrap()).is_err() {
            continue;
        }
        // confirm: the same case alone, in a fresh process, must also fail to finish within a minute
        let Ok(mut c) = Command::new(exe).arg("replay").arg(&fname).stdout(std::process::Stdio::null()).spawn() else { continue };
        let t0 = std::time::Instant::now();
        let mut finished = false;
        while t0.elapsed() < std::time::Duration::from_secs(60) {
            if let Ok(Some(_)) = c.try_wait() {
                finished = true;
                break;
            }
            std::thread::sleep(std::time::Duration::from_millis(200));
        }
        if finished {
            let _ = std::fs::remove_file(&fname);
            continue;
        }
        let _ = c.kill();
        let _ = c.wait();
        reported += 1;
        println!("  violated {}.hang: no progress for {} s in world={} scenario={} run={} (confirmed: the case alone does not finish within 60 s)", id, secs, u.world.name(), u.scenario, run);
        println!("VIOLATION property={} replay={}", id, fname);
    }
    if reported > 0 {
        1
    } else {
        eprintln!("HARNESS-ERROR: worker stalled for {} s but no single case reproduces a hang (machine overloaded?)", secs);
        2
    }
}

fn supervise(id: &str, tier: &str, rest: &[String]) -> i32 {
    use std::os::unix::process::ExitStatusExt;
    let exe = std::env::current_exe().expect("current exe");
    let slots = format!("{}/sim/target/slots-{}-{}.bin", report::verif_root(), id, std::process::id());
    let mut child = match Command::new(&exe).arg("worker").arg(id).arg(tier).args(rest).arg("--slots").arg(&slots).spawn() {
        Ok(c) => c,
        Err(e) => {
            eprintln!("HARNESS-ERROR: cannot spawn worker: {}", e);
            return 2;
        }
    };
    // watchdog: a worker thread that stays on one run for minutes is not making progress (a run takes milliseconds,
    // the heaviest ones a few seconds): the library call it is in does not terminate
    let stall_limit = std::time::Duration::from_secs(std::env::var("VERIF_STALL_SECS").ok().and_then(|s| s.parse().ok()).unwrap_or(300));
    let mut seen: Vec<(Vec<u8>, std::time::Instant)> = Vec::new();
    let mut stalled: Vec<(usize, u64)> = Vec::new();
    let status = loop {
        match child.try_wait() {
            Ok(Some(st)) => break st,
            Ok(None) => {}
            Err(e) => {
                eprintln!("HARNESS-ERROR: cannot wait for worker: {}", e);
                return 2;
            }
        }
        std::thread::sleep(std::time::Duration::from_millis(500));
        let data = std::fs::read(&slots).unwrap_or_default();
        for (i, chunk) in data.chunks_exact(24).enumerate() {
            if seen.len() <= i {
                seen.push((chunk.to_vec(), std::time::Instant::now()));
                continue;
            }
            if seen[i].0 != chunk {
                seen[i] = (chunk.to_vec(), std::time::Instant::now());
            } else if u64::from_le_bytes(chunk[0..8].try_into().unwrap()) == 1 && seen[i].1.elapsed() > stall_limit {
                stalled.push((u64::from_le_bytes(chunk[8..16].try_into().unwrap()) as usize, u64::from_le_bytes(chunk[16..24].try_into().unwrap())));
            }
        }
        if !stalled.is_empty() {
            let _ = child.kill();
            let _ = child.wait();
            let _ = std::fs::remove_file(&slots);
            return report_hang(id, &exe, &stalled, stall_limit.as_secs());
        }
    };
    if let Some(code) = status.code() {
        let _ = std::fs::remove_file(&slots);
        return code;
    }
    let sig = status.signal().unwrap_or(0);
    eprintln!("worker died by signal {}; localising", sig);
    let Some(spec) = registry::property(id) else { return 2 };
    let data = std::fs::read(&slots).unwrap_or_default();
    let _ = std::fs::remove_file(&slots);
    let seed = seed_from_env();
    let mut reported = 0;
    for chunk in data.chunks_exact(24) {
        let live = u64::from_le_bytes(chunk[0..8].try_into().unwrap());
        if live != 1 {
            continue;
        }
        let ui = u64::from_le_bytes(chunk[8..16].try_into().unwrap()) as usize;
        let run = u64::from_le_bytes(chunk[16..24].try_into().unwrap());
        let Some(u) = spec.units.get(ui) else { continue };
        // write a candidate replay and see whether it kills a fresh child
        let case = u.world.case_json(seed, u.scenario, run);
        let fname = format!("{}/replays/{}-{}-{}-{}-{}-abort.json", report::verif_root(), id, seed, u.world.name(), u.scenario, run);
        // a process death while executing a case of this property's workload means the library neither returned the
        // result the property demands nor rejected the input: it is reported against this property (and is, besides, what
        // C10 calls an abort)
        let replay = serde_json::json!({
            "property": id, "invariant": format!("{}.abort", id), "key": format!("signal{}", sig), "world": u.world.name(), "scenario": u.scenario,
            "seed": seed, "run": run, "minimised": false, "detail": format!("process died by signal {} while executing this case", sig), "case": case,
        });
        let _ = std::fs::create_dir_all(format!("{}/replays", report::verif_root()));
        if std::fs::write(&fname, serde_json::to_string_pretty(&replay).unwrap()).is_err() {
            continue;
        }
        let st = Command::new(&exe).arg("replay").arg(&fname).status();
        let died = matches!(&st, Ok(s) if s.code().is_none());
        if died {
            reported += 1;
            println!("  violated {}.abort: process died by signal {} in world={} scenario={} run={}", id, sig, u.world.name(), u.scenario, run);
            println!("VIOLATION property={} replay={}", id, fname);
        } else {
            let _ = std::fs::remove_file(&fname);
        }
    }
    if reported > 0 {
        1
    } else {
        if reported == 0 {
            eprintln!("HARNESS-ERROR: worker died by signal {} and no run reproduces it", sig);
        }
        2
    }
}
