//! The seams the simulator owns: reader, writer, RNG, allocator accounting.
//! Every plan is explicit and serialisable so a replay file needs no PRNG.

use crate::prng::splitmix;
use serde::{Deserialize, Serialize};
use std::alloc::{GlobalAlloc, Layout, System};
use std::cell::Cell;
use std::io;

// ------------------------------------------------------------------------------------------------
// I/O plans

#[derive(Clone, Debug, Serialize, Deserialize, PartialEq, Eq)]
pub enum HardKind {
    ConnectionReset,
    TimedOut,
    Other,
    StorageFull,
    BrokenPipe,
    WriteZero, // writer returns Ok(0)
    Eof,       // reader returns Ok(0) early (peer closed mid-message)
}

impl HardKind {
    fn to_err(&self) -> io::Error {
        match self {
            HardKind::ConnectionReset => io::Error::new(io::ErrorKind::ConnectionReset, "sim: connection reset"),
            HardKind::TimedOut => io::Error::new(io::ErrorKind::TimedOut, "sim: timed out"),
            HardKind::Other => io::Error::new(io::ErrorKind::Other, "sim: other"),
            HardKind::StorageFull => io::Error::new(io::ErrorKind::Other, "sim: no space left on device"),
            HardKind::BrokenPipe => io::Error::new(io::ErrorKind::BrokenPipe, "sim: broken pipe"),
            HardKind::WriteZero | HardKind::Eof => unreachable!(),
        }
    }
}

/// How a stream behaves during one call. `max_chunk == 0` means "as much as asked".
#[derive(Clone, Debug, Serialize, Deserialize, PartialEq, Eq)]
pub struct IoPlan {
    pub max_chunk: usize,
    /// probability (per 1024) that a call returns `Interrupted` instead of making progress
    pub eintr_per_1024: u32,
    /// a hard fault at absolute byte offset `at`
    pub hard: Option<(usize, HardKind)>,
    pub seed: u64,
}

impl IoPlan {
    pub fn perfect() -> IoPlan {
        IoPlan { max_chunk: 0, eintr_per_1024: 0, hard: None, seed: 0 }
    }
    pub fn is_perfect(&self) -> bool {
        self.max_chunk == 0 && self.eintr_per_1024 == 0 && self.hard.is_none()
    }
    /// draw a benign plan (chunking + EINTR only)
    pub fn draw_benign(p: &mut crate::prng::Prng) -> IoPlan {
        let max_chunk = match p.below(6) {
            0 => 0,
            1 => 1,
            2 => 2,
            3 => p.urange(3, 9),
            4 => p.urange(10, 100),
            _ => p.urange(100, 5000),
        };
        let eintr = match p.below(4) {
            0 | 1 => 0,
            2 => 64,
            _ => 400,
        };
        IoPlan { max_chunk, eintr_per_1024: eintr, hard: None, seed: p.u64() }
    }
}

#[derive(Default, Clone, Debug)]
pub struct IoCounts {
    pub calls: u64,
    pub short: u64,
    pub eintr: u64,
    pub hard: u64,
    pub zero: u64,
    pub flushes: u64,
}

pub struct SimReader<'a> {
    data: &'a [u8],
    pos: usize,
    plan: IoPlan,
    st: u64,
    consecutive_eintr: u32,
    pub counts: IoCounts,
}

impl<'a> SimReader<'a> {
    pub fn new(data: &'a [u8], plan: &IoPlan) -> Self {
        SimReader { data, pos: 0, plan: plan.clone(), st: plan.seed, consecutive_eintr: 0, counts: IoCounts::default() }
    }
    pub fn consumed(&self) -> usize {
        self.pos
    }
}

impl<'a> io::Read for SimReader<'a> {
    fn read(&mut self, buf: &mut [u8]) -> io::Result<usize> {
        self.counts.calls += 1;
        if buf.is_empty() {
            return Ok(0);
        }
        if let Some((at, kind)) = &self.plan.hard {
            if self.pos >= *at {
                self.counts.hard += 1;
                return match kind {
                    HardKind::Eof => Ok(0),
                    k => Err(k.to_err()),
                };
            }
        }
        if self.plan.eintr_per_1024 > 0 && self.consecutive_eintr < 3 {
            if (splitmix(&mut self.st) & 1023) < self.plan.eintr_per_1024 as u64 {
                self.consecutive_eintr += 1;
                self.counts.eintr += 1;
                return Err(io::Error::new(io::ErrorKind::Interrupted, "sim: EINTR"));
            }
        }
        self.consecutive_eintr = 0;
        let mut limit = self.data.len();
        if let Some((at, _)) = &self.plan.hard {
            limit = limit.min(*at);
        }
        let remaining = limit - self.pos;
        if remaining == 0 {
            return Ok(0);
        }
        let mut n = buf.len().min(remaining);
        if self.plan.max_chunk > 0 {
            let c = 1 + (splitmix(&mut self.st) % self.plan.max_chunk as u64) as usize;
            if c < n {
                n = c;
                self.counts.short += 1;
            }
        }
        buf[..n].copy_from_slice(&self.data[self.pos..self.pos + n]);
        self.pos += n;
        Ok(n)
    }
}

pub struct SimWriter {
    pub accepted: Vec<u8>,
    plan: IoPlan,
    st: u64,
    consecutive_eintr: u32,
    pub counts: IoCounts,
}

impl SimWriter {
    pub fn new(plan: &IoPlan) -> Self {
        SimWriter { accepted: Vec::new(), plan: plan.clone(), st: plan.seed, consecutive_eintr: 0, counts: IoCounts::default() }
    }
}

impl io::Write for SimWriter {
    fn write(&mut self, buf: &[u8]) -> io::Result<usize> {
        self.counts.calls += 1;
        if buf.is_empty() {
            return Ok(0);
        }
        let pos = self.accepted.len();
        if let Some((at, kind)) = &self.plan.hard {
            if pos >= *at {
                return match kind {
                    HardKind::WriteZero => {
                        self.counts.zero += 1;
                        Ok(0)
                    }
                    k => {
                        self.counts.hard += 1;
                        Err(k.to_err())
                    }
                };
            }
        }
        if self.plan.eintr_per_1024 > 0 && self.consecutive_eintr < 3 {
            if (splitmix(&mut self.st) & 1023) < self.plan.eintr_per_1024 as u64 {
                self.consecutive_eintr += 1;
                self.counts.eintr += 1;
                return Err(io::Error::new(io::ErrorKind::Interrupted, "sim: EINTR"));
            }
        }
        self.consecutive_eintr = 0;
        let mut n = buf.len();
        if let Some((at, _)) = &self.plan.hard {
            n = n.min(*at - pos);
        }
        if self.plan.max_chunk > 0 {
            let c = 1 + (splitmix(&mut self.st) % self.plan.max_chunk as u64) as usize;
            if c < n {
                n = c;
            }
        }
        if n < buf.len() {
            self.counts.short += 1;
        }
        self.accepted.extend_from_slice(&buf[..n]);
        Ok(n)
    }
    fn flush(&mut self) -> io::Result<()> {
        self.counts.flushes += 1;
        Ok(())
    }
}

// ------------------------------------------------------------------------------------------------
// RNG seam

#[derive(Clone, Debug, Serialize, Deserialize, PartialEq, Eq)]
pub enum Personality {
    Uniform,
    /// a short repeating block: equal 32-byte draws, equal blinding factors / ephemeral keys
    LowEntropy { block: usize },
    /// long runs of equal bytes, value changing every `run` bytes
    Sticky { run: usize },
}

#[derive(Clone, Debug, Serialize, Deserialize, PartialEq, Eq)]
pub struct RngPlan {
    pub seed: u64,
    pub personality: Personality,
}

pub struct SimRng {
    inner: rand_chacha::ChaCha8Rng,
    personality: Personality,
    block: Vec<u8>,
    cursor: usize,
    pub draws: u64,
    pub bytes_served: u64,
}

impl SimRng {
    pub fn new(plan: &RngPlan) -> SimRng {
        use rand::{RngCore, SeedableRng};
        let mut st = plan.seed;
        let mut key = [0u8; 32];
        for i in 0..4 {
            key[i * 8..i * 8 + 8].copy_from_slice(&splitmix(&mut st).to_le_bytes());
        }
        let mut inner = rand_chacha::ChaCha8Rng::from_seed(key);
        let block = match &plan.personality {
            Personality::LowEntropy { block } => {
                let mut b = vec![0u8; (*block).max(1)];
                inner.fill_bytes(&mut b);
                // keep the repeating block a plausible scalar: top byte below the curve order's
                b[0] &= 0x7f;
                if b.iter().all(|x| *x == 0) {
                    b[0] = 1;
                }
                b
            }
            _ => Vec::new(),
        };
        SimRng { inner, personality: plan.personality.clone(), block, cursor: 0, draws: 0, bytes_served: 0 }
    }
}

impl rand::RngCore for SimRng {
    fn next_u32(&mut self) -> u32 {
        let mut b = [0u8; 4];
        self.fill_bytes(&mut b);
        u32::from_le_bytes(b)
    }
    fn next_u64(&mut self) -> u64 {
        let mut b = [0u8; 8];
        self.fill_bytes(&mut b);
        u64::from_le_bytes(b)
    }
    fn fill_bytes(&mut self, dest: &mut [u8]) {
        self.draws += 1;
        self.bytes_served += dest.len() as u64;
        match &self.personality {
            Personality::Uniform => self.inner.fill_bytes(dest),
            Personality::LowEntropy { .. } => {
                // every draw starts at the beginning of the block: equal-length draws are equal
                for (i, d) in dest.iter_mut().enumerate() {
                    *d = self.block[i % self.block.len()];
                }
            }
            Personality::Sticky { run } => {
                let run = (*run).max(1);
                for d in dest.iter_mut() {
                    if self.cursor % run == 0 {
                        let mut b = [0u8; 1];
                        self.inner.fill_bytes(&mut b);
                        // avoid 0x00 / 0xff runs: those make invalid scalars with non-negligible
                        // probability, which a real CSPRNG never does
                        self.block = vec![1 + (b[0] % 0x7e)];
                    }
                    *d = self.block[0];
                    self.cursor += 1;
                }
            }
        }
    }
    fn try_fill_bytes(&mut self, dest: &mut [u8]) -> Result<(), rand::Error> {
        self.fill_bytes(dest);
        Ok(())
    }
}
impl rand::CryptoRng for SimRng {}

// ------------------------------------------------------------------------------------------------
// Allocator accounting

pub struct CountingAlloc;

thread_local! {
    static ARMED: Cell<bool> = const { Cell::new(false) };
    static LIVE: Cell<usize> = const { Cell::new(0) };
    static PEAK: Cell<usize> = const { Cell::new(0) };
    static LARGEST: Cell<usize> = const { Cell::new(0) };
    static NALLOC: Cell<u64> = const { Cell::new(0) };
}

/// A single request above this is refused (null), which aborts the process; the supervisor
/// reports it as `C10.abort`. Nothing legitimate in the library asks for this much.
pub const HARD_SINGLE_LIMIT: usize = 3 << 30;

#[inline]
fn on_alloc(size: usize) {
    let _ = ARMED.try_with(|a| {
        if a.get() {
            let _ = LIVE.try_with(|l| {
                let v = l.get().saturating_add(size);
                l.set(v);
                let _ = PEAK.try_with(|p| {
                    if v > p.get() {
                        p.set(v)
                    }
                });
            });
            let _ = LARGEST.try_with(|m| {
                if size > m.get() {
                    m.set(size)
                }
            });
            let _ = NALLOC.try_with(|n| n.set(n.get() + 1));
        }
    });
}
#[inline]
fn on_dealloc(size: usize) {
    let _ = ARMED.try_with(|a| {
        if a.get() {
            let _ = LIVE.try_with(|l| l.set(l.get().saturating_sub(size)));
        }
    });
}

unsafe impl GlobalAlloc for CountingAlloc {
    unsafe fn alloc(&self, layout: Layout) -> *mut u8 {
        if layout.size() > HARD_SINGLE_LIMIT {
            return std::ptr::null_mut();
        }
        on_alloc(layout.size());
        System.alloc(layout)
    }
    unsafe fn alloc_zeroed(&self, layout: Layout) -> *mut u8 {
        if layout.size() > HARD_SINGLE_LIMIT {
            return std::ptr::null_mut();
        }
        on_alloc(layout.size());
        System.alloc_zeroed(layout)
    }
    unsafe fn dealloc(&self, ptr: *mut u8, layout: Layout) {
        on_dealloc(layout.size());
        System.dealloc(ptr, layout)
    }
    unsafe fn realloc(&self, ptr: *mut u8, layout: Layout, new_size: usize) -> *mut u8 {
        if new_size > HARD_SINGLE_LIMIT {
            return std::ptr::null_mut();
        }
        if new_size > layout.size() {
            on_alloc(new_size - layout.size());
        } else {
            on_dealloc(layout.size() - new_size);
        }
        System.realloc(ptr, layout, new_size)
    }
}

#[derive(Clone, Copy, Debug, Default)]
pub struct AllocReport {
    pub peak: usize,
    pub largest: usize,
    pub count: u64,
}

/// Run `f` with the allocator armed on this thread; report peak live bytes above the level at entry.
pub fn measure<T>(f: impl FnOnce() -> T) -> (T, AllocReport) {
    let was = ARMED.with(|a| a.replace(true));
    let (l0, p0, m0, n0) = (LIVE.with(|c| c.get()), PEAK.with(|c| c.get()), LARGEST.with(|c| c.get()), NALLOC.with(|c| c.get()));
    LIVE.with(|c| c.set(0));
    PEAK.with(|c| c.set(0));
    LARGEST.with(|c| c.set(0));
    struct Restore(bool, usize, usize, usize);
    impl Drop for Restore {
        fn drop(&mut self) {
            ARMED.with(|a| a.set(self.0));
            // nested measurement: fold the inner numbers back conservatively
            let inner_peak = PEAK.with(|c| c.get());
            LIVE.with(|c| c.set(self.1.saturating_add(c.get())));
            PEAK.with(|c| c.set(self.2.max(self.1.saturating_add(inner_peak))));
            LARGEST.with(|c| c.set(self.3.max(c.get())));
        }
    }
    let restore = Restore(was, l0, p0, m0);
    let r = f();
    let rep = AllocReport { peak: PEAK.with(|c| c.get()), largest: LARGEST.with(|c| c.get()), count: NALLOC.with(|c| c.get()) - n0 };
    drop(restore);
    (r, rep)
}
