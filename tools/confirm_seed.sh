#!/bin/bash
# Confirm a sub-agent's seeded change in its scratch worktree: demo passes clean, fails with patch,
# existing suite passes with patch. usage: tools/confirm_seed.sh <ID> <k>
set -u
ID=$1; K=$2; WT=${3:-/tmp/wt3-$ID}
cd $WT || exit 2
git checkout -q -- . ; rm -f tests/demo_m*.rs
cp out/demo_m$K.rs tests/demo_m$K.rs
clean=$(cargo test --offline -p elements --test demo_m$K 2>&1 | grep -E '^test result' | head -1)
git apply out/m$K.diff || { echo "patch does not apply"; exit 2; }
patched=$(cargo test --offline -p elements --test demo_m$K 2>&1 | grep -E '^test result' | head -1)
rm -f tests/demo_m$K.rs
suite=$(cargo test --offline -p elements 2>&1 | grep -E '^test result' | tr '\n' ';')
git checkout -q -- .
echo "$ID m$K | clean: $clean | patched: $patched | suite(with patch): $suite"
