#!/bin/bash
# Apply a seeded breaking change to /repo, run the named quick checks, undo it straight afterwards.
# usage: tools/try_patch.sh <patch.diff> <ID> [ID...]
set -u
P="$1"; shift
cd "$(dirname "$0")/.."
if ! git -C /repo diff --quiet; then echo "/repo has uncommitted changes; refusing" >&2; exit 2; fi
git -C /repo apply "$P" || { echo "patch does not apply" >&2; exit 2; }
trap 'git -C /repo checkout -- . ' EXIT
for id in "$@"; do
  out=$(./check "$id" quick --no-evidence 2>&1); rc=$?
  echo "== $id rc=$rc"; echo "$out" | grep -E 'violated|VIOLATION|HARNESS|KNOWN' | cut -c1-260 | head -40
done
