#!/bin/bash
# Run every seeded change under /verif/seeded against the check of the property it targets and record
# the outcome in seeded/<name>/result.json (and a summary table in seeded/RESULTS.md).
set -u
cd "$(dirname "$0")/.."
# optional argument: a glob over change names (e.g. '*-r3m*'); then RESULTS.md is left alone and results go to stdout
PAT="${1:-*}"
OUT=seeded/RESULTS.md; [ "$PAT" != "*" ] && OUT=/dev/null
echo "| seeded change | property | detected | first violated invariant |" > $OUT
echo "|---|---|---|---|" >> $OUT
for d in seeded/$PAT/; do
  n=$(basename $d); id=${n%%-*}
  [ -f $d/patch.diff ] || continue
  if ! git -C /repo diff --quiet; then echo "/repo dirty" >&2; exit 2; fi
  git -C /repo apply "$(pwd)/${d}patch.diff" || { echo "$n: patch does not apply"; continue; }
  out=$(./check $id quick --no-evidence 2>&1); rc=$?
  git -C /repo checkout -- .
  first=$(echo "$out" | grep -E 'violated' | head -1 | sed 's/^ *violated //' | cut -c1-160 | tr '|' '/' )
  inv=$(echo "$first" | cut -d' ' -f1)
  python3 - "$d" "$id" "$rc" "$first" <<'PY'
import json,sys,os
d,id,rc,first=sys.argv[1:5]
meta={"property":id,"check_cmd":f"./check {id} quick","exit_code":int(rc),"detected":int(rc)==1,"first_violation":first}
notes=os.path.join(d,"notes.md")
if os.path.exists(notes): meta["needs_to_manifest"]=open(notes).read().strip()
meta["origin"]="independent sub-agent (given only the property text and a scratch worktree)" if os.path.exists(os.path.join(d,"demo.rs")) else "written by the framework author from the sensitivity plan in DESIGN §8"
meta["confirmed"]="patch applies to /repo HEAD; with it `cargo test --offline -p elements` passes (85 unit + 14 doc tests); the demonstration (demo.rs, an integration test) fails with the patch and passes without (tools/confirm_seed.sh)" if os.path.exists(os.path.join(d,"demo.rs")) else "patch applies to /repo HEAD and compiles; existing suite not re-run for author-written patches"
json.dump(meta,open(os.path.join(d,"meta.json"),"w"),indent=1)
PY
  echo "| $n | $id | $([ $rc -eq 1 ] && echo yes || echo NO) | $inv |" >> $OUT
  echo "$n rc=$rc $inv"
done
