#!/bin/bash
# Development helper: run the seeded-change matrix in a scratch copy (worktree of /repo + copy of /verif whose
# simulator depends on that worktree), so that /repo and /verif stay usable meanwhile. The committed
# seeded/RESULTS.md is produced by tools/seed_matrix.sh on /repo itself.
# usage: tools/scratch_matrix.sh '<glob>' [tag]
set -u
PAT="${1:-*}"; TAG="${2:-a}"
S=/tmp/seedrun-$TAG
mkdir -p $S
[ -d $S/repo ] || git -C /repo worktree add -q --detach $S/repo HEAD
git -C $S/repo checkout -q --detach $(git -C /repo rev-parse HEAD); git -C $S/repo checkout -q -- .
rsync -a --delete --exclude target --exclude .git --exclude replays /verif/ $S/verif/
sed -i "s#path = \"/repo\"#path = \"$S/repo\"#" $S/verif/sim/Cargo.toml
cd $S/verif
for d in seeded/$PAT/; do
  n=$(basename $d); id=${n%%-*}
  [ -f $d/patch.diff ] || continue
  git -C $S/repo apply "$(pwd)/${d}patch.diff" || { echo "$n: patch does not apply"; continue; }
  out=$(./check $id quick --no-evidence 2>&1); rc=$?
  git -C $S/repo checkout -q -- .
  first=$(echo "$out" | grep -E 'violated' | head -1 | sed 's/^ *violated //' | cut -c1-200)
  echo "$n rc=$rc $first"
done
