#!/bin/bash
# Run seeded changes against the checks in a scratch copy: a git worktree of /repo's HEAD plus a copy of /verif whose
# simulator depends on that worktree (only sim/Cargo.toml's path differs). Same patch, same check, same binary
# source as `git -C /repo apply` + `./check` would use, but /repo and /verif stay usable meanwhile and several
# copies can run side by side. Results: /verif/seeded/<name>/result.json (collected by tools/collect_matrix.py).
# usage: tools/scratch_matrix.sh '<glob>' [tag]
set -u
PAT="${1:-*}"; TAG="${2:-a}"
S=/tmp/seedrun-$TAG
mkdir -p $S
[ -d $S/repo ] || git -C /repo worktree add -q --detach $S/repo HEAD
git -C $S/repo checkout -q -- . ; git -C $S/repo checkout -q --detach $(git -C /repo rev-parse HEAD)
rsync -a --delete --exclude target --exclude .git --exclude replays /verif/ $S/verif/
sed -i "s#path = \"/repo\"#path = \"$S/repo\"#" $S/verif/sim/Cargo.toml
VERIF_COMMIT=$(git -C /verif rev-parse --short HEAD)$(git -C /verif diff --quiet || echo +dirty)
cd $S/verif
for d in seeded/$PAT/; do
  n=$(basename $d); id=${n%%-*}
  [ -f $d/patch.diff ] || continue
  [ -f $d/RETIRED ] && continue
  git -C $S/repo apply "$(pwd)/${d}patch.diff" || { echo "$n: patch does not apply"; continue; }
  out=$(./check $id quick --fast-fail 2>&1); rc=$?
  git -C $S/repo checkout -q -- .
  first=$(echo "$out" | grep -E 'violated' | head -1 | sed 's/^ *violated //' | cut -c1-200)
  python3 - "$n" "$id" "$rc" "$first" "$VERIF_COMMIT" <<'PY'
import json,sys
n,id,rc,first,commit=sys.argv[1:6]
json.dump({"name":n,"property":id,"exit_code":int(rc),"detected":int(rc)==1,"first_violation":first,"verif_commit":commit},open(f"/verif/seeded/{n}/result.json","w"),indent=1)
PY
  echo "$n rc=$rc $first"
done
