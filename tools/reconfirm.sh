#!/bin/bash
# Re-confirm a seeded change against /repo's current HEAD in a scratch worktree: demo passes clean, fails with the patch.
# usage: tools/reconfirm.sh <seeded-name> [suite]
set -u
N=$1; WT=/tmp/reconf-wt
[ -d $WT ] || git -C /repo worktree add -q --detach $WT HEAD
git -C $WT checkout -q -- . ; git -C $WT checkout -q --detach $(git -C /repo rev-parse HEAD); rm -f $WT/tests/demo_x.rs
mkdir -p $WT/tests; cp /verif/seeded/$N/demo.rs $WT/tests/demo_x.rs
cd $WT
clean=$(CARGO_NET_OFFLINE=true cargo test --offline -p elements --test demo_x 2>&1 | grep -E '^test result' | head -1 | cut -c1-60)
git apply /verif/seeded/$N/patch.diff || { echo "$N: patch does not apply"; exit 2; }
patched=$(CARGO_NET_OFFLINE=true cargo test --offline -p elements --test demo_x 2>&1 | grep -E '^test result|error(\[|:)' | head -1 | cut -c1-60)
suite=""
if [ "${2:-}" = "suite" ]; then rm -f tests/demo_x.rs; suite=$(CARGO_NET_OFFLINE=true cargo test --offline -p elements 2>&1 | grep -E '^test result' | cut -c1-40 | tr '\n' ';'); fi
git checkout -q -- . ; rm -f tests/demo_x.rs
echo "$N | clean: $clean | patched: $patched | $suite"
