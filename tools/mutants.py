#!/usr/bin/env python3
"""Systematic small mutants of the anchored source files (operator-level: relational, arithmetic, logical,
boolean, constant, statement deletion, min/max, range bounds, write_all/read_exact). Deterministic.
usage: tools/mutants.py <count> [seed]  -> writes /verif/mutants/list.json
Each entry: {id, file, line, op, before, after, props}. Lines inside #[cfg(test)] modules, comments, doc
comments, attributes, and string-only lines are skipped."""
import re, sys, json, random, os
REPO='/repo'
FILES = {
 'src/encode.rs': ['C01','C07','C10'],
 'src/ext.rs': ['C01','C07','C10'],
 'src/transaction.rs': ['C01','C08','C10','C05'],
 'src/confidential.rs': ['C01','C04','C05','C09'],
 'src/block.rs': ['C01','C10'],
 'src/dynafed.rs': ['C01','C10'],
 'src/script.rs': ['C10','C05','C01'],
 'src/blind.rs': ['C04','C05','C09','C10'],
 'src/pset/mod.rs': ['C07','C08','C09','C14','C10'],
 'src/pset/map/global.rs': ['C07','C14','C09','C10'],
 'src/pset/map/input.rs': ['C07','C08','C14','C09'],
 'src/pset/map/output.rs': ['C07','C08','C14','C09'],
 'src/pset/raw.rs': ['C07','C10'],
 'src/pset/serialize.rs': ['C07','C10'],
 'src/pset/macros.rs': ['C07','C14'],
 'src/pset/elip100.rs': ['C07','C10'],
 'src/pset/elip102.rs': ['C07'],
 'src/taproot.rs': ['C07','C10'],
 'src/sighash.rs': ['C13','C10'],
 'src/blech32/decode.rs': ['C17','C10'],
 'src/blech32/mod.rs': ['C17'],
 'src/address.rs': ['C17','C10','C09'],
 'src/locktime.rs': ['C01','C08','C10'],
 'src/issuance.rs': ['C04','C05','C09'],
 'src/internal_macros.rs': ['C01','C07'],
}
OPS = [
 ('rel', r' <= ', ' < '), ('rel', r' < ', ' <= '), ('rel', r' >= ', ' > '), ('rel', r' > ', ' >= '),
 ('eq', r' == ', ' != '), ('eq', r' != ', ' == '),
 ('arith', r' \+ ', ' - '), ('arith', r' - ', ' + '), ('arith', r' \* ', ' + '),
 ('logic', r' && ', ' || '), ('logic', r' \|\| ', ' && '),
 ('bool', r'\btrue\b', 'false'), ('bool', r'\bfalse\b', 'true'),
 ('opt', r'\.is_some\(\)', '.is_none()'), ('opt', r'\.is_none\(\)', '.is_some()'),
 ('empty', r'(\b[\w\.\(\)\[\]&]+)\.is_empty\(\)', r'!\1.is_empty()'),
 ('minmax', r'\bmin\(', 'max('), ('minmax', r'\bmax\(', 'min('),
 ('range', r'\.\.=', '..'), 
 ('io', r'\.write_all\(', '.write('), ('io', r'\.read_exact\(', '.read('),
 ('bit', r' & ', ' | '), ('bit', r' \| ', ' & '), ('shift', r' >> ', ' << '), ('shift', r' << ', ' >> '),
 ('neg', r'\bif !', 'if '), 
 ('const', r'\b(\d+)\b', None), ('hexconst', r'\b0x([0-9a-fA-F_]+)\b', None),
 ('delstmt', None, None),
 ('retearly', None, None),
]
def code_lines(path):
    src=open(path).read().split('\n')
    out=[]; in_test=False; depth_block_comment=0
    for i,l in enumerate(src):
        s=l.strip()
        if s.startswith('#[cfg(test)]'): in_test=True
        if in_test: continue
        if s.startswith('//') or s.startswith('#[') or s.startswith('#![') or s=='' : continue
        if s.startswith('use ') or s.startswith('pub use ') or s.startswith('mod ') or s.startswith('pub mod '): continue
        if s.startswith('"') : continue
        out.append(i)
    return src,out
def mutate_line(line, rng):
    """yield (op, newline) candidates"""
    cands=[]
    code=line.split('//')[0]
    # avoid touching string literals: mask them
    masked=re.sub(r'"(?:[^"\\]|\\.)*"', lambda m:'"'+'\0'*(len(m.group(0))-2)+'"', code)
    for name,pat,rep in OPS:
        if name=='delstmt':
            s=code.strip()
            if s.endswith(';') and not s.startswith(('let ','return','use ','const ','static ','pub ','type ','break','continue','}')) and ('(' in s or ' = ' in s or '+=' in s) and '?' not in s:
                cands.append((name, re.sub(r'\S.*$', '{ /* deleted */ }', code, count=1) if False else code[:len(code)-len(code.lstrip())]+'// MUTANT deleted: '+s))
            continue
        if name=='retearly':
            continue
        for m in re.finditer(pat, masked):
            a,b=m.span()
            if name=='const':
                v=int(m.group(1))
                if a>0 and masked[a-1] in '._' : continue
                if b<len(masked) and masked[b:b+1] in '._' and not masked[b:b+2]=='..': continue
                if re.search(r'[A-Za-z_]$', masked[:a]): continue
                new=str(v+1) if v!=1 else '2'
                if v==0: new='1'
                cands.append((name, code[:a]+new+code[b:]))
            elif name=='hexconst':
                h=m.group(1).replace('_','')
                v=int(h,16); new=hex(v ^ 1)
                cands.append((name, code[:a]+new+code[b:]))
            elif name=='empty':
                cands.append((name, code[:a]+re.sub(pat, rep, code[a:b])+code[b:]))
            else:
                # skip generics / arrows
                seg=masked[max(0,a-1):b+1]
                if name in('rel',) and ('->' in masked[a-2:b+2] or '=>' in masked[a-2:b+2]): continue
                cands.append((name, code[:a]+rep+code[b:]))
    return cands
def main():
    n=int(sys.argv[1]); seed=int(sys.argv[2]) if len(sys.argv)>2 else 1
    rng=random.Random(seed)
    allc=[]
    for f,props in FILES.items():
        path=os.path.join(REPO,f)
        src,idx=code_lines(path)
        for i in idx:
            for op,new in mutate_line(src[i], rng):
                if new.strip()==src[i].strip(): continue
                allc.append({'file':f,'line':i+1,'op':op,'before':src[i],'after':new,'props':props})
    rng.shuffle(allc)
    # balance: at most ~n/len(FILES)*3 per file, and spread over ops
    per_file={}; per_op={}; out=[]
    cap_file=max(6, 3*n//len(FILES)); cap_op=max(10, n//4); CAPS={'const':n//8,'hexconst':n//15,'delstmt':n//5}
    seen_lines=set()
    for c in allc:
        k=(c['file'],c['line'])
        if k in seen_lines: continue
        if per_file.get(c['file'],0)>=cap_file or per_op.get(c['op'],0)>=CAPS.get(c['op'],cap_op): continue
        if re.search(r'^\s*(pub )?(struct|enum|impl|fn|const|static|type)\b', c['before']) or '=> {' in c['before'] and c['op']=='rel': continue
        seen_lines.add(k); per_file[c['file']]=per_file.get(c['file'],0)+1; per_op[c['op']]=per_op.get(c['op'],0)+1
        out.append(c)
        if len(out)>=n: break
    for i,c in enumerate(out): c['id']=f'mu{seed}-{i:04d}'
    json.dump(out, open('/verif/mutants/list.json','w'), indent=1)
    print(len(allc),'candidates;',len(out),'selected; per op',per_op)
main()
