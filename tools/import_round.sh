#!/bin/bash
# import sub-agent output of round R from /tmp/wt<R>-<ID>/out into seeded/<ID>-r<R>m<k>/ (patch.diff, demo.rs, notes.md)
# usage: tools/import_round.sh <R> <ID>
set -u
R=$1; ID=$2
for k in 1 2 3 4; do
  src=/tmp/wt$R-$ID/out
  [ -f $src/m$k.diff ] || continue
  d=/verif/seeded/$ID-r${R}m$k; mkdir -p $d
  cp $src/m$k.diff $d/patch.diff; cp $src/demo_m$k.rs $d/demo.rs; cp $src/notes_m$k.md $d/notes.md
done
ls -d /verif/seeded/$ID-r${R}m* | tr '\n' ' '; echo
