#!/bin/bash
# Determinism proof: every check's per-unit log hash (a hash over the complete per-run event logs, in run
# order) must be identical across separate processes (different HashMap RandomState, ASLR) and worker counts.
# usage: tools/determinism.sh [seeds] [scale]
set -u
cd "$(dirname "$0")/.."
BIN=./sim/target/release/elements-sim
SEEDS=${1:-5}; SCALE=${2:-0.05}
fail=0
for id in C01 C04 C05 C07 C08 C09 C10 C13 C14 C17; do
  for seed in $(seq 1 $SEEDS); do
    ref=""
    for w in 1 4 16 16; do
      h=$(VERIF_SEED=$seed $BIN dethash $id quick --workers $w --scale $SCALE | md5sum | cut -d' ' -f1)
      if [ -z "$ref" ]; then ref=$h; elif [ "$h" != "$ref" ]; then echo "DIVERGENCE id=$id seed=$seed workers=$w"; fail=1; fi
    done
  done
  echo "$id: $SEEDS seeds x {1,4,16,16} workers identical=$([ $fail -eq 0 ] && echo yes || echo NO)"
done
exit $fail
