#!/usr/bin/env python3
"""Assemble seeded/<name>/meta.json and seeded/RESULTS.md from the result.json files written by
tools/scratch_matrix.sh (or tools/seed_matrix.sh)."""
import json, os, glob
root = '/verif/seeded'
rows = []
for d in sorted(glob.glob(root + '/*/')):
    n = os.path.basename(d.rstrip('/'))
    if not os.path.exists(d + 'patch.diff'): continue
    meta = json.load(open(d + 'meta.json')) if os.path.exists(d + 'meta.json') else {}
    if os.path.exists(d + 'result.json'):
        r = json.load(open(d + 'result.json'))
        meta.update({"property": r["property"], "check_cmd": f"./check {r['property']} quick", "exit_code": r["exit_code"],
                     "detected": r["detected"], "first_violation": r["first_violation"], "checked_at_verif_commit": r["verif_commit"],
                     "how_run": "patch applied to a scratch git worktree of /repo's HEAD; the check (a copy of /verif whose simulator is built against that worktree) run once with the default seed; worktree restored afterwards (tools/scratch_matrix.sh)"})
    if os.path.exists(d + 'notes.md') and 'needs_to_manifest' not in meta:
        meta["needs_to_manifest"] = open(d + 'notes.md').read().strip()
    agent = os.path.exists(d + 'demo.rs')
    meta.setdefault("origin", "independent sub-agent (given only the property text and a scratch worktree)" if agent else "written by the framework author from the sensitivity plan in DESIGN §8")
    meta.setdefault("confirmed", "patch applies to /repo HEAD; with it `cargo test --offline -p elements` passes (85 unit + 14 doc tests); the demonstration (demo.rs, an integration test) fails with the patch and passes without (tools/confirm_seed.sh)" if agent else "patch applies to /repo HEAD and compiles; existing suite not re-run for author-written patches")
    json.dump(meta, open(d + 'meta.json', 'w'), indent=1)
    inv = (meta.get("first_violation") or "").split(' ')[0]
    status = 'yes' if meta.get("detected") else 'NO'
    if os.path.exists(d + 'RETIRED'):
        status = 'retired'; meta["retired"] = open(d + 'RETIRED').read().strip(); inv = ''
        json.dump(meta, open(d + 'meta.json', 'w'), indent=1)
    elif "detected" not in meta:
        status = 'not run'
    rows.append((n, meta.get("property", n.split('-')[0]), status, inv))
with open(root + '/RESULTS.md', 'w') as f:
    f.write("| seeded change | property | detected | first violated invariant |\n|---|---|---|---|\n")
    for n, p, det, inv in rows:
        f.write(f"| {n} | {p} | {det} | {inv} |\n")
print(len(rows), 'changes;', sum(1 for r in rows if r[2] == 'yes'), 'detected;', {k: [r[0] for r in rows if r[2] == k] for k in ('NO', 'retired', 'not run')})
