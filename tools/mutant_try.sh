#!/bin/bash
# Apply one mutant of /verif/mutants/list.json to /repo, run the named quick checks (fast-fail), restore /repo.
# usage: tools/mutant_try.sh <mutant id> <ID> [ID...]
set -u
M=$1; shift
if ! git -C /repo diff --quiet; then echo "/repo has uncommitted changes; refusing" >&2; exit 2; fi
trap 'git -C /repo checkout -q -- .' EXIT
python3 - "$M" <<'PY' || exit 2
import json,sys
l={c['id']:c for c in json.load(open('/verif/mutants/list.json'))}
c=l[sys.argv[1]]; p='/repo/'+c['file']; src=open(p).read().split('\n')
assert src[c['line']-1]==c['before'], 'source drift'
src[c['line']-1]=c['after']; open(p,'w').write('\n'.join(src))
print(c['id'],c['file'],c['line'],c['op'])
PY
cd /verif
for id in "$@"; do
  out=$(./check "$id" quick --fast-fail 2>&1); rc=$?
  echo "== $id rc=$rc $(echo "$out" | grep -E 'violated' | head -1 | cut -c1-200)"
done
