#!/usr/bin/env python3
"""Extract the repository's own test vectors (hex / base64 literals and tests/data files) into
/verif/sim/corpus/blobs.txt: one line per distinct blob, `<source> <hex>`. Classification (which decoder
accepts which blob, which spent outputs make a transaction verify) is done by `elements-sim corpus-classify`
with the real library and stored in corpus.json. The corpus is WORKLOAD (committed); the library under
test is always rebuilt from /repo's working tree."""
import re, os, sys, base64
ROOT = '/repo'
out = {}
def add(src, hx):
    hx = hx.lower()
    if len(hx) % 2 or len(hx) < 16: return
    out.setdefault(hx, src)
for base in ('src', 'tests', 'examples', 'fuzz/fuzz_targets'):
    for r, d, fs in os.walk(os.path.join(ROOT, base)):
        for f in sorted(fs):
            p = os.path.join(r, f)
            rel = os.path.relpath(p, ROOT)
            try: s = open(p).read()
            except Exception: continue
            if f.endswith('.hex'):
                add(rel, re.sub(r'\s+', '', s)); continue
            if not f.endswith('.rs'): continue
            s = re.sub(r'\\\n\s*', '', s)                       # string continuation
            s = re.sub(r'"\s*,\s*\n\s*"(?=[0-9a-fA-F])', '', s)  # concat!("..", "..")
            for m in re.finditer(r'"([0-9a-fA-F]{16,})"', s):
                add(rel, m.group(1))
            for m in re.finditer(r'"(cHNldP8[A-Za-z0-9+/=]+)"', s):
                try: add(rel + '#b64', base64.b64decode(m.group(1)).hex())
                except Exception: pass
with open('/verif/sim/corpus/blobs.txt', 'w') as f:
    for hx, src in sorted(out.items(), key=lambda kv: (kv[1], len(kv[0]), kv[0])):
        f.write(f'{src} {hx}\n')
print(len(out), 'blobs', sum(len(h) for h in out)//2, 'bytes')
