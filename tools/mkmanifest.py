#!/usr/bin/env python3
"""Regenerates /verif/MANIFEST.json from the table below and validates it against the schema."""
import json, sys, os
ROOT = os.path.dirname(os.path.dirname(os.path.abspath(__file__)))

TRUST = ("Trusted: rustc/std, serde_json, the harness itself (generators, seams, reference models). "
         "Sampling, not proof: a clean batch is evidence over the seeded runs only.")

CLAIMED = {
  "C01": dict(
    category="exploration",
    text=("Seeded deterministic simulation of encoder -> medium -> decoder for 16 consensus types: every consensus_encode/"
          "consensus_decode runs against SimWriter/SimReader (short writes/reads down to 1 byte, EINTR, Ok(0), hard errors and early "
          "EOF at drawn or swept byte offsets), the medium corrupts real encodings (bit flips and substitutions aimed at tag and "
          "length bytes through a field-boundary map, truncation, extension, segment dup/drop/swap, length-prefix rewrites) and a "
          "byzantine re-encoder re-frames them (non-minimal varints, witness flag without witnesses, superfluous null issuance, "
          "unknown confidential prefix). Oracle: bytes and reported length at the seam equal the reference; errors never yield Ok; "
          "whatever deserialize accepts re-encodes to exactly the delivered bytes; canonical values round-trip. Workload: generated "
          "canonical values, values out of the library's constructors and blinding functions (Default impls, new_fee, blind_issuances, "
          "Transaction::blind, from_tx/extract_tx), and the repository's own vectors (30 real transactions, 6 blocks and the objects "
          "cut out of them), whose refusal or changed re-encoding is reported."),
    design_ref="DESIGN.md §4 C01, §12.1-12.2, appendix A/E",
    note=TRUST + " Reference bytes are the library's own serialize() on a perfect medium, so a change made consistently to encoder and decoder is invisible (conformance with Elements Core is not C01).",
    technique="deterministic simulation with fault injection: I/O seams (SimReader/SimWriter) + byte-fault medium + byzantine re-encoder, seeded search, replayable cases",
  ),
  "C04": dict(
    category="exploration",
    text=("Simulated wallet -> medium -> verifier/receivers pipeline: the RNG handed to Transaction::blind is a simulator-owned seam "
          "(uniform, low-entropy and sticky personalities), the blinded transaction travels serialized through chunking/EINTR "
          "reader/writer seams, then verify_tx_amt_proofs must accept it and every marked output must unblind with its receiver key "
          "to the original asset/value and to exactly the factors the blinder reported, which must reproduce the commitments and nonce. "
          "A second wallet (scenario manual) assembles the same transactions from the public output constructors (new_not_last_"
          "confidential / to_non_last_confidential / with_txout_secrets, then new_last_confidential / with_secrets_last) with any marked "
          "output blinded last and with surjection-domain entries passed as bare commitments; same postconditions."),
    design_ref="DESIGN.md §4 C04, §12.2",
    note=TRUST + " Soundness of the zero-knowledge proofs (secp256k1-zkp) is trusted. Workload postconditions dominate; the simulator contributes the RNG seam and the serialized hand-over.",
    technique="deterministic simulation: RNG seam with adversarial personalities + serialized hop through I/O seams, seeded workload search",
  ),
  "C05": dict(
    category="exploration",
    text=("Fault injection by a byzantine relay between blinder and verifier: starting from verifying transactions produced as in C04, "
          "exactly one tamper per delivery from the classes the property lists (explicit amount/asset, commitment replace/swap, "
          "range/surjection proof remove/swap/foreign/bit-corrupt, script of a blinded output, issuance amount, differing or "
          "wrong-length spent outputs) must make verification fail (wrong length specifically as UtxoInputLenMismatch); all-explicit "
          "transactions are compared with a u128 per-asset reference including the zero-value rule. The same tampers are applied to the "
          "repository's ten real verifying (transaction, spent outputs) vectors (scenario tamper-corpus)."),
    design_ref="DESIGN.md §4 C05, §12.1",
    note=TRUST + " Only the listed single-location tamper classes are injected; a changed generator of a confidential input is asserted only when every surjection ring covers the whole domain.",
    technique="deterministic simulation: single-fault tamper injection in the medium between producer and verifier + executable balance model",
  ),
  "C07": dict(
    category="exploration",
    text=("Same seam sweep as C01 for PartiallySignedTransaction, raw Key/Pair/ProprietaryKey (including the one encoder that used "
          "write instead of write_all, found and fixed), a generator of well-formed PSETs over random subsets of all BIP174/370/371, "
          "Elements, proprietary/unknown and ELIP-100/102 fields and tap trees of every shape up to 8 leaves, medium faults aimed "
          "through the key-value segment map, and byzantine re-framings (duplicate pair, dropped mandatory pair, count off by one, "
          "wrong version, wrong preimage hash, key data on a keyless type). Oracle: value and byte round trip; for every accepted "
          "delivery the canonical re-encoding decodes to an equal PSET and re-encodes to itself; forbidden framings are rejected. The "
          "Global / Input / Output maps are swept as codec types of their own; 22 real PSETs of the repository's vectors (including "
          "Elements-Core-made ones) are part of the workload."),
    design_ref="DESIGN.md §4 C07, §12, appendix D/E",
    note=TRUST + " Interop byte-equality with Elements Core is not checked.",
    technique="deterministic simulation with fault injection: I/O seams + key-value-aware medium + byzantine PSET re-encoder, seeded search",
  ),
  "C08": dict(
    category="exploration",
    text=("Role histories over a PSET exchanged serialized between creator, updaters, signers and finalizers: after EVERY delivered "
          "event (field addition or hand-over through chunking/EINTR seams, corrupted-then-retransmitted or duplicated deliveries in "
          "the faulty configuration) unique_id() must equal the id of the previous event, two extract_tx() calls must agree and equal a "
          "field-by-field model; from_tx(t).extract_tx() == t over well-formed transactions; locktime() against a 12-line executable "
          "model of BIP370 over every {none,time,height,both} assignment on 0..5 inputs and any fallback."),
    design_ref="DESIGN.md §4 C08",
    note=TRUST + " Mostly workload checked as invariants along simulated histories. Two open known findings (explicit nonce; confidential nonce on an unblinded output) are confined to 1/6 of the tx round-trip runs.",
    technique="deterministic simulation: seeded multi-party role histories with invariants after every delivered event + executable BIP370 reference model",
  ),
  "C09": dict(
    category="exploration",
    text=("Multi-party simulation: 1..4 blinders, each knowing only its own inputs' secrets and owning the outputs whose blinder_index "
          "points at its inputs, act in a drawn order (all but one blind_non_last, the last blind_last), each with its own simulator-owned "
          "RNG; between every two steps the PSET is serialized, carried by the medium (bytes or base64, chunked/EINTR; corrupted-then-"
          "retransmitted, duplicated, or the party forgets its result and redoes the step) and deserialized. Invariants per step (exactly "
          "one scalar added, foreign outputs untouched) and at the end (all marked outputs fully blinded, scalars empty, extracted "
          "transaction verifies against the UTXOs, every output unblinds to the original, stored explicit-value/asset proofs verify); a "
          "blinder's PSET that cannot be serialized and passed on is a violation (C09.hop). Spent outputs of four blinding kinds, "
          "1..3 assets, issuances and reissuances, blinder index at any input of the owning party."),
    design_ref="DESIGN.md §4 C09, §12.2",
    note=TRUST + " Every party owning inputs blinds at least one output; collusion/privacy properties are not examined.",
    technique="deterministic simulation: seeded party schedule, per-party RNG seam, serialized hops with message faults and party amnesia",
  ),
  "C14": dict(
    category="exploration",
    text=("Replica-convergence simulation: from a generated ancestor, 2..5 parties add independent or identical fields (48 kinds over "
          "global/input/output maps), send their copy serialized to the combiner; the same delivery multiset is merged under 2..4 drawn "
          "orders, as a chain and as a tree, with duplicated deliveries; all results must be equal field-wise and byte-wise, keep the "
          "unique id, contain every addition of every party; a PSET with another id must be refused unchanged; xpub key sources in seven "
          "relations are merged in both directions and compared with the rule documented in Global::merge."),
    design_ref="DESIGN.md §4 C14",
    note=TRUST + " Only independent additions are generated; A+A == A is deliberately not demanded.",
    technique="deterministic simulation: replicas diverge by seeded independent updates, deliveries reordered/duplicated, convergence and no-loss oracles",
  ),
  "C10": dict(
    category="exploration",
    text=("Every library call in every simulated world runs under catch_unwind with a counting global allocator armed (budget "
          "64 MiB + 32 x input length) inside a supervised child process, so unwinding panics, over-allocation AND non-unwinding deaths "
          "(allocation abort, SIGSEGV in the C library, stack overflow) are localised to a run, replayed in a fresh process and reported. "
          "A dedicated surface world feeds 14 groups of fallible APIs (address/blech32/PSET text, scripts, control blocks, Schnorr "
          "signatures, proofs, commitments from slices, accessors on decoded transactions/blocks, PSET operations, blinding, taproot "
          "builder, metadata, integer-argument constructors) with what the medium delivers after faults on real encodings, random data, and structurally valid but "
          "semantically arbitrary arguments."),
    design_ref="DESIGN.md §4 C10, §12.2",
    note=TRUST + " Documented-panic conditions are excluded; stack depth and time complexity are not examined.",
    technique="deterministic simulation with fault injection: faulted inputs from the medium + allocator seam + supervised child process for aborts",
  ),
  "C13": dict(
    category="exploration",
    text=("One simulated signer issues seeded histories (<= 24 steps) of legacy / segwit-v0 / taproot digest queries, the three "
          "encode_signing_data_to forms into chunking/EINTR/hard-faulting writers, and witness_mut pushes against ONE SighashCache; "
          "each step is compared with a cache created fresh for that query (digest, bytes or error), later steps must still match "
          "after a mid-message write error, One(i,p_i) must equal All(p) for ANYONECANPAY types and be an error otherwise; once a script "
          "witness has been pushed through the cache, every answer must also equal that of a fresh cache over the original "
          "transaction (no digest commits to script witnesses)."),
    design_ref="DESIGN.md §4 C13, §12.2",
    note=TRUST + " Whether the digests are the consensus ones is C03 (not applicable). Same spent outputs throughout a history.",
    technique="deterministic simulation: seeded operation histories against a stateful object vs per-step fresh reference model, with write-fault injection",
  ),
  "C17": dict(
    category="fault_enumeration",
    text=("Fault enumeration over the property's own fault model: every 1-symbol substitution of the data part of "
          "generated bech32/bech32m/blech32/blech32m addresses, every 1- and 2-symbol substitution of the HRP, "
          "and the COMPLETE set of 2-symbol data-part substitutions for representative addresses (each checksum variant x "
          "program-length class x network), plus seeded 2-symbol samples elsewhere; each corrupted string is parsed by the real "
          "from_str and parse_with_params under all three networks; any Ok is a violation."),
    design_ref="DESIGN.md §4 C17",
    note=TRUST + " Does not see a generator-constant change shared by encoder and decoder (stated in DESIGN §4 C17 MISSES).",
    technique="deterministic simulation: symbol-substitution fault enumeration in the medium between address formatter and parser",
  ),
}

NA = {
  "C02": "pure function of an in-memory value (txid/wtxid/block hash); no schedule, clock, stream, RNG or fault in the statement — DESIGN §5",
  "C03": "equality of digests with an independent implementation for all inputs: differential testing of pure functions, not a simulation target — DESIGN §5",
  "C06": "pure string functions (Display/FromStr of addresses vs reference encoders); networks are a finite parameter, not a simulated environment — DESIGN §5",
  "C11": "pure derivation of asset/token ids — DESIGN §5",
  "C12": "pure arithmetic on a value vs serialized lengths — DESIGN §5",
  "C15": "pure tree/commitment algebra (taproot builder, control blocks) — DESIGN §5",
  "C16": "pure functions (script builder, templates, script<->address) — DESIGN §5",
  "C18": "pure function of a slice; complete enumeration of leaf counts is the right tool, not simulation — DESIGN §5",
  "C19": "pure (dynafed roots and compaction) — DESIGN §5",
  "C20": "pure round-trips; the stream seams belong to serde_json/serde_cbor, not this crate — DESIGN §5",
}
PENDING = {}
for line in open(os.path.join(ROOT, "tools", "pending.txt")) if os.path.exists(os.path.join(ROOT, "tools", "pending.txt")) else []:
    line = line.strip()
    if line:
        PENDING[line] = "designed as a simulation target (DESIGN §4) but its check is not registered yet in this commit; not claimed until it is"

checks = []
PEND = set(PENDING)
for pid in sorted(CLAIMED):
    if pid in PEND:
        continue
    c = CLAIMED[pid]
    checks.append({
        "property_id": pid,
        "quick_cmd": f"./check {pid} quick",
        "thorough_cmd": f"./check {pid} thorough",
        "evidence_file": f"/verif/evidence/{pid}.json",
        "replay_cmd_template": f"./check {pid} --replay {{path}}",
        "engine": "elements-sim",
        "level_claimed": {"category": c["category"], "text": c["text"], "design_ref": c["design_ref"]},
        "level_note": c["note"],
        "technique": c["technique"],
    })
na = [{"property_id": k, "reason": v} for k, v in sorted({**NA, **PENDING}.items())]
allp = [json.loads(l)["id"] for l in open(os.path.join(ROOT, "properties.jsonl"))]
missing = [p for p in allp if (p not in CLAIMED or p in PEND) and p not in {x["property_id"] for x in na}]
assert not missing, missing
overlap = [p for p in CLAIMED if p in NA]
assert not overlap, overlap

m = {
  "version": 1,
  "setup_cmd": "cd /verif/sim && CARGO_NET_OFFLINE=true cargo build --release --offline",
  "hooks": {
    "guard": "--cfg elements_verif",
    "enable": "no hooks are needed: every seam (io::Read, io::Write, RngCore, global allocator, call order) is a generic parameter of the public API; checks build /repo unmodified as a path dependency of /verif/sim",
    "baseline_off_cmd": "cd /repo && cargo test --workspace --no-fail-fast --offline",
    "source_commits": [],
    "add_only": True,
  },
  "engines": [{
    "name": "elements-sim",
    "path": "/verif/sim",
    "serves_properties": sorted(p for p in CLAIMED if p not in PEND),
    "kind_free_text": "single-binary deterministic simulator: one PRNG keyed by (VERIF_SEED, world, scenario, run) draws an explicit case (workload spec, operations, I/O plans, RNG plans, medium faults, party order); execution consults no PRNG; seams SimReader/SimWriter/SimRng/counting allocator; supervisor child process for aborts; minimiser + self-contained replay files",
  }],
  "checks": checks,
  "not_applicable": na,
  "notes": "See /verif/DESIGN.md. Known findings: /verif/known_findings.json (read-only at run time). Seeded breaking changes used to test the checks: /verif/seeded/.",
}
out = os.path.join(ROOT, "MANIFEST.json")
json.dump(m, open(out, "w"), indent=1)
try:
    import jsonschema
    jsonschema.validate(m, json.load(open("/root/.vp/MANIFEST.schema.json")))
    print("MANIFEST.json valid;", len(checks), "checks;", len(na), "not applicable")
except ImportError:
    print("jsonschema not available; wrote without validating")
