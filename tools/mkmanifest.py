#!/usr/bin/env python3
"""Regenerates /verif/MANIFEST.json from the table below and validates it against the schema."""
import json, sys, os
ROOT = os.path.dirname(os.path.dirname(os.path.abspath(__file__)))

TRUST = ("Trusted: rustc/std, serde_json, the harness itself (generators, seams, reference models). "
         "Sampling, not proof: a clean batch is evidence over the seeded runs only.")

CLAIMED = {
  "C17": dict(
    category="fault_enumeration",
    text=("Fault enumeration over the property's own fault model: every 1-symbol substitution of the data part of "
          "thousands of generated bech32/bech32m/blech32/blech32m addresses, every 1- and 2-symbol substitution of the HRP, "
          "and the COMPLETE set of 2-symbol data-part substitutions for representative addresses (each checksum variant x "
          "program-length class x network), plus seeded 2-symbol samples elsewhere; each corrupted string is parsed by the real "
          "from_str and parse_with_params under all three networks; any Ok is a violation."),
    design_ref="DESIGN.md §4 C17",
    note=TRUST + " Does not see a generator-constant change shared by encoder and decoder (stated in DESIGN §4 C17 MISSES).",
    technique="deterministic simulation: symbol-substitution fault enumeration in the medium between address formatter and parser",
  ),
}

NA = {
  "C02": "pure function of an in-memory value (txid/wtxid/block hash); no schedule, clock, stream, RNG or fault in the statement — DESIGN §5",
  "C03": "equality of digests with an independent implementation for all inputs: differential testing of pure functions, not a simulation target — DESIGN §5",
  "C06": "pure string functions (Display/FromStr of addresses vs reference encoders); networks are a finite parameter, not a simulated environment — DESIGN §5",
  "C11": "pure derivation of asset/token ids — DESIGN §5",
  "C12": "pure arithmetic on a value vs serialized lengths — DESIGN §5",
  "C15": "pure tree/commitment algebra (taproot builder, control blocks) — DESIGN §5",
  "C16": "pure functions (script builder, templates, script<->address) — DESIGN §5",
  "C18": "pure function of a slice; complete enumeration of leaf counts is the right tool, not simulation — DESIGN §5",
  "C19": "pure (dynafed roots and compaction) — DESIGN §5",
  "C20": "pure round-trips; the stream seams belong to serde_json/serde_cbor, not this crate — DESIGN §5",
}
PENDING = {}
for line in open(os.path.join(ROOT, "tools", "pending.txt")) if os.path.exists(os.path.join(ROOT, "tools", "pending.txt")) else []:
    line = line.strip()
    if line:
        PENDING[line] = "designed as a simulation target (DESIGN §4) but its check is not registered yet in this commit; not claimed until it is"

checks = []
for pid in sorted(CLAIMED):
    c = CLAIMED[pid]
    checks.append({
        "property_id": pid,
        "quick_cmd": f"./check {pid} quick",
        "thorough_cmd": f"./check {pid} thorough",
        "evidence_file": f"/verif/evidence/{pid}.json",
        "replay_cmd_template": f"./check {pid} --replay {{path}}",
        "engine": "elements-sim",
        "level_claimed": {"category": c["category"], "text": c["text"], "design_ref": c["design_ref"]},
        "level_note": c["note"],
        "technique": c["technique"],
    })
na = [{"property_id": k, "reason": v} for k, v in sorted({**NA, **{k: v for k, v in PENDING.items() if k not in CLAIMED}}.items())]
allp = [json.loads(l)["id"] for l in open(os.path.join(ROOT, "properties.jsonl"))]
missing = [p for p in allp if p not in CLAIMED and p not in {x["property_id"] for x in na}]
assert not missing, missing
overlap = [p for p in CLAIMED if p in NA]
assert not overlap, overlap

m = {
  "version": 1,
  "setup_cmd": "cd /verif/sim && CARGO_NET_OFFLINE=true cargo build --release --offline",
  "hooks": {
    "guard": "--cfg elements_verif",
    "enable": "no hooks are needed: every seam (io::Read, io::Write, RngCore, global allocator, call order) is a generic parameter of the public API; checks build /repo unmodified as a path dependency of /verif/sim",
    "baseline_off_cmd": "cd /repo && cargo test --workspace --no-fail-fast --offline",
    "source_commits": [],
    "add_only": True,
  },
  "engines": [{
    "name": "elements-sim",
    "path": "/verif/sim",
    "serves_properties": sorted(CLAIMED),
    "kind_free_text": "single-binary deterministic simulator: one PRNG keyed by (VERIF_SEED, world, scenario, run) draws an explicit case (workload spec, operations, I/O plans, RNG plans, medium faults, party order); execution consults no PRNG; seams SimReader/SimWriter/SimRng/counting allocator; supervisor child process for aborts; minimiser + self-contained replay files",
  }],
  "checks": checks,
  "not_applicable": na,
  "notes": "See /verif/DESIGN.md. Known findings: /verif/known_findings.json (read-only at run time). Seeded breaking changes used to test the checks: /verif/seeded/.",
}
out = os.path.join(ROOT, "MANIFEST.json")
json.dump(m, open(out, "w"), indent=1)
try:
    import jsonschema
    jsonschema.validate(m, json.load(open("/root/.vp/MANIFEST.schema.json")))
    print("MANIFEST.json valid;", len(checks), "checks;", len(na), "not applicable")
except ImportError:
    print("jsonschema not available; wrote without validating")
