#!/bin/bash
# Process mutants [START, END) of /verif/mutants/list.json in scratch copy /tmp/seedrun-<TAG>:
# apply -> cargo build -> existing suite (unit + doc tests) -> the checks of the properties the file is anchored in.
# Result per mutant: /verif/mutants/results/<id>.json {status: nocompile | killed-by-suite | detected | survived | harness-error}
# usage: tools/mutant_run.sh <tag> <start> <end>
set -u
TAG=$1; START=$2; END=$3
S=/tmp/seedrun-$TAG
mkdir -p $S /verif/mutants/results
[ -d $S/repo ] || git -C /repo worktree add -q --detach $S/repo HEAD
git -C $S/repo checkout -q -- . ; git -C $S/repo checkout -q --detach $(git -C /repo rev-parse HEAD)
rsync -a --delete --exclude target --exclude .git --exclude replays --exclude mutants /verif/ $S/verif/
sed -i "s#path = \"/repo\"#path = \"$S/repo\"#" $S/verif/sim/Cargo.toml
export CARGO_NET_OFFLINE=true
for i in $(seq $START $((END-1))); do
  info=$(python3 - $i $S <<'PY'
import json,sys
i=int(sys.argv[1]); S=sys.argv[2]
l=json.load(open('/verif/mutants/list.json'))
if i>=len(l): print("END"); sys.exit()
c=l[i]
p=f"{S}/repo/{c['file']}"
src=open(p).read().split('\n')
assert src[c['line']-1]==c['before'], "source drift"
src[c['line']-1]=c['after']
open(p,'w').write('\n'.join(src))
print(c['id'], ' '.join(c['props']))
PY
)
  [ "$info" = "END" ] && break
  id=${info%% *}; props=${info#* }
  [ -f /verif/mutants/results/$id.json ] && { git -C $S/repo checkout -q -- .; continue; }
  status=""; detail=""
  if ! (cd $S/repo && timeout 900 cargo build --offline -p elements --lib >/dev/null 2>&1); then status=nocompile
  elif ! (cd $S/repo && timeout 1200 cargo test --offline -p elements --lib >/dev/null 2>&1); then status=killed-by-suite; detail=unit
  elif ! (cd $S/repo && timeout 1800 cargo test --offline -p elements --doc >/dev/null 2>&1); then status=killed-by-suite; detail=doc
  else
    status=survived
    for prop in $props; do
      out=$(cd $S/verif && timeout 1800 ./check $prop quick --fast-fail 2>&1); rc=$?
      if [ $rc -eq 1 ]; then status=detected; detail="$prop $(echo "$out" | grep -E 'violated' | head -1 | sed 's/^ *violated //' | cut -c1-160)"; break; fi
      if [ $rc -ne 0 ]; then status=harness-error; detail="$prop rc=$rc $(echo "$out" | grep -E 'HARNESS|error' | head -1 | cut -c1-160)"; break; fi
    done
  fi
  git -C $S/repo checkout -q -- .
  python3 - "$id" "$status" "$detail" <<'PY'
import json,sys
id,status,detail=sys.argv[1:4]
l={c['id']:c for c in json.load(open('/verif/mutants/list.json'))}
c=l[id]; c['status']=status; c['detail']=detail
json.dump(c,open(f'/verif/mutants/results/{id}.json','w'),indent=1)
PY
  echo "$id $status $detail"
done
