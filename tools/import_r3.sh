#!/bin/bash
# import round-3 sub-agent output from /tmp/wt3-<ID>/out into seeded/<ID>-r3m<k>/ (patch.diff, demo.rs, notes.md)
set -u
ID=$1
for k in 1 2 3 4; do
  src=/tmp/wt3-$ID/out
  [ -f $src/m$k.diff ] || continue
  d=/verif/seeded/$ID-r3m$k; mkdir -p $d
  cp $src/m$k.diff $d/patch.diff; cp $src/demo_m$k.rs $d/demo.rs; cp $src/notes_m$k.md $d/notes.md
done
ls -d /verif/seeded/$ID-r3m*
